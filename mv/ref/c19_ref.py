"""Reference side of C19 (no mouette import): Bernstein forms in exact arithmetic, convex-hull membership by LP,
distances to segments / triangles, exact point-in-triangle verification, binomial acceptance region."""
import math
from fractions import Fraction

import numpy as np

EPS = float(np.finfo(float).eps)


# ----------------------------------------------------------------------------- Bernstein
def bernstein_weights(n, t):
    """Exact Bernstein basis values B_{i,n}(t), i = 0..n, for a float / Fraction parameter."""
    t = Fraction(t)
    s = 1 - t
    return [math.comb(n, i) * t ** i * s ** (n - i) for i in range(n + 1)]


def frac_points(P):
    return [[Fraction(float(x)) for x in p] for p in P]


def bernstein_curve(Pf, t):
    """Pf: control points as Fractions (frac_points).  Exact value of sum_i B_i(t) P_i."""
    n = len(Pf) - 1
    w = bernstein_weights(n, t)
    dim = len(Pf[0])
    return [sum(w[i] * Pf[i][k] for i in range(n + 1)) for k in range(dim)]


def bernstein_patch(Nf, a, b):
    """Nf[i][j] Fractions.  Exact value of sum_i sum_j B_i(a) B_j(b) N[i][j]  (a runs with the OUTER index)."""
    m = len(Nf) - 1
    n = len(Nf[0]) - 1
    wa = bernstein_weights(m, a)
    wb = bernstein_weights(n, b)
    dim = len(Nf[0][0])
    out = []
    for k in range(dim):
        s = Fraction(0)
        for i in range(m + 1):
            if wa[i] == 0:
                continue
            s += wa[i] * sum(wb[j] * Nf[i][j][k] for j in range(n + 1))
        out.append(s)
    return out


def max_abs_diff(exact, got):
    """max_k |exact_k - got_k| with got floats, evaluated exactly and rounded once."""
    worst = 0.0
    for e, g in zip(exact, got):
        g = float(g)
        if not math.isfinite(g):
            return float("inf")
        d = abs(e - Fraction(g))
        try:
            d = float(d)
        except OverflowError:
            d = float("inf")
        worst = max(worst, d)
    return worst


# ----------------------------------------------------------------------------- convex hull membership
def hull_residual(points, b):
    """Smallest s (in units of the point set's scale) such that b is within s (max-norm) of a convex combination of
    `points`.  Returns (status, s_lp, s_certified): s_certified is the residual of the explicit convex combination
    returned by the LP after clipping/renormalising (an upper bound of the true distance that does not depend on
    the solver's tolerances); s_lp is the solver's optimum.  status False when the solver did not answer."""
    from scipy.optimize import linprog
    P = np.asarray(points, float)
    b = np.asarray(b, float)
    k, d = P.shape
    c0 = P.mean(axis=0)
    scale = float(np.max(np.abs(P - c0))) if k else 0.0
    if not np.all(np.isfinite(b)):
        return True, float("inf"), float("inf")
    if scale == 0.0:
        r = float(np.max(np.abs(b - c0)))
        base = max(1.0, float(np.max(np.abs(c0))))
        return True, r / base, r / base
    Q = (P - c0) / scale
    q = (b - c0) / scale
    # variables: lambda_0..k-1, s ; minimise s
    c = np.zeros(k + 1)
    c[-1] = 1.0
    A_ub = np.zeros((2 * d, k + 1))
    b_ub = np.zeros(2 * d)
    A_ub[:d, :k] = Q.T
    A_ub[:d, k] = -1.0
    b_ub[:d] = q
    A_ub[d:, :k] = -Q.T
    A_ub[d:, k] = -1.0
    b_ub[d:] = -q
    A_eq = np.zeros((1, k + 1))
    A_eq[0, :k] = 1.0
    try:
        res = linprog(c, A_ub=A_ub, b_ub=b_ub, A_eq=A_eq, b_eq=[1.0], bounds=[(0, None)] * (k + 1), method="highs",
                      options={"primal_feasibility_tolerance": 1e-10, "dual_feasibility_tolerance": 1e-10})
    except Exception:
        return False, None, None
    if res.status != 0 or res.x is None:
        return False, None, None
    lam = np.clip(res.x[:k], 0.0, None)
    if lam.sum() <= 0:
        return False, None, None
    lam = lam / lam.sum()
    cert = float(np.max(np.abs(Q.T @ lam - q)))
    return True, float(res.x[k]), cert


# ----------------------------------------------------------------------------- segments
def seg_dist_matrix(P, A, B):
    """Distances |p - segment(a,b)| for all points (N,3) and segments (E,3): (N,E) matrix."""
    P = np.asarray(P, float)[:, None, :]
    A = np.asarray(A, float)[None, :, :]
    B = np.asarray(B, float)[None, :, :]
    AB = B - A
    L2 = np.sum(AB * AB, axis=2)
    L2s = np.where(L2 > 0, L2, 1.0)
    t = np.sum((P - A) * AB, axis=2) / L2s
    t = np.clip(t, 0.0, 1.0)
    C = A + t[:, :, None] * AB
    return np.sqrt(np.sum((P - C) ** 2, axis=2))


# ----------------------------------------------------------------------------- triangles
def tri_dist_matrix(P, A, B, C):
    """Euclidean distance from each point to each (non-degenerate) triangle as a 3-D set: (N,F) matrix.
    Plain float arithmetic; accuracy about eps*scale*(longest edge/height), so it is used for pre-selection and
    for assignment with a loose tolerance only; the tight verdict uses `inside_triangle_exact`."""
    P = np.asarray(P, float)
    A = np.asarray(A, float)
    B = np.asarray(B, float)
    C = np.asarray(C, float)
    n = np.cross(B - A, C - A)
    nn = np.linalg.norm(n, axis=1)
    nh = n / np.where(nn > 0, nn, 1.0)[:, None]
    PA = P[:, None, :] - A[None, :, :]
    dpl = np.sum(PA * nh[None, :, :], axis=2)                    # signed plane distance (N,F)
    Q = P[:, None, :] - dpl[:, :, None] * nh[None, :, :]           # projection
    # signed in-plane distances to the three edge lines (positive inside)

    def edge_side(X, Y):
        e = Y - X
        el = np.linalg.norm(e, axis=1)
        inward = np.cross(nh, e / np.where(el > 0, el, 1.0)[:, None])   # unit, in plane, pointing inside for ccw
        return np.sum((Q - X[None, :, :]) * inward[None, :, :], axis=2)
    s0 = edge_side(A, B)
    s1 = edge_side(B, C)
    s2 = edge_side(C, A)
    inside = (s0 >= 0) & (s1 >= 0) & (s2 >= 0)
    dseg = np.minimum(np.minimum(seg_dist_matrix(P, A, B), seg_dist_matrix(P, B, C)), seg_dist_matrix(P, C, A))
    return np.where(inside, np.abs(dpl), dseg)


def inside_triangle_exact(p, a, b, c, tol_abs):
    """Exact (rational) test: is the float point p within tol_abs of the closed triangle abc, in the sense
    |distance to the plane| <= tol_abs and signed in-plane distance to each edge line >= -tol_abs?
    Returns (ok, plane_dist, worst_edge_dist) as floats (worst_edge_dist negative = outside by that much)."""
    p = [Fraction(float(x)) for x in p]
    a = [Fraction(float(x)) for x in a]
    b = [Fraction(float(x)) for x in b]
    c = [Fraction(float(x)) for x in c]

    def sub(x, y):
        return [x[0] - y[0], x[1] - y[1], x[2] - y[2]]

    def dot(x, y):
        return x[0] * y[0] + x[1] * y[1] + x[2] * y[2]

    def cross(x, y):
        return [x[1] * y[2] - x[2] * y[1], x[2] * y[0] - x[0] * y[2], x[0] * y[1] - x[1] * y[0]]
    u, v, w = sub(b, a), sub(c, a), sub(p, a)
    n = cross(u, v)
    nn = dot(n, n)
    if nn == 0:
        return False, float("nan"), float("nan")
    # plane distance^2 = (w.n)^2 / nn
    wn = dot(w, n)
    plane2 = wn * wn / nn
    # barycentric coordinates of the projection: l1 = ((w x v).n)/nn, l2 = ((u x w).n)/nn
    l1 = dot(cross(w, v), n) / nn
    l2 = dot(cross(u, w), n) / nn
    l0 = 1 - l1 - l2
    # in-plane signed distance to the edge opposite vertex i = l_i * height_i, height_i = sqrt(nn)/|edge_i|
    e0 = sub(c, b)
    worst = None
    ok = plane2 <= Fraction(tol_abs) ** 2
    for li, e in ((l0, e0), (l1, v), (l2, u)):
        ee = dot(e, e)
        # d_i = li * sqrt(nn/ee); test d_i >= -tol  <=>  li >= 0 or li^2 * nn/ee <= tol^2
        d2 = li * li * nn / ee
        di = math.sqrt(float(d2)) * (1 if li >= 0 else -1)
        worst = di if worst is None else min(worst, di)
        if li < 0 and d2 > Fraction(tol_abs) ** 2:
            ok = False
    return bool(ok), math.sqrt(float(plane2)), worst


def tri_normals(V, F):
    V = np.asarray(V, float)
    F = np.asarray(F, int)
    A, B, C = V[F[:, 0]], V[F[:, 1]], V[F[:, 2]]
    n = np.cross(B - A, C - A)
    nn = np.linalg.norm(n, axis=1)
    lmax = np.maximum(np.maximum(np.linalg.norm(B - A, axis=1), np.linalg.norm(C - B, axis=1)), np.linalg.norm(A - C, axis=1))
    with np.errstate(all="ignore"):
        unit = n / nn[:, None]
        cond = lmax * lmax / nn          # (longest edge)^2 / (2 area): amplification of rounding in the direction
    return unit, nn / 2.0, cond


# ----------------------------------------------------------------------------- binomial acceptance region
def binom_ok(k, N, p, alpha_bin):
    """Exact two-sided test: accept k successes out of N at success probability p unless one of the exact tails
    P(X <= k), P(X >= k) is below alpha_bin/2.  Returns (ok, tail)."""
    from scipy.stats import binom
    p = min(max(float(p), 0.0), 1.0)
    lo = float(binom.cdf(k, N, p))
    hi = float(binom.sf(k - 1, N, p))
    tail = min(lo, hi)
    return tail >= alpha_bin / 2.0, tail


def grid_resolutions(n, d):
    """Per-axis resolutions that the statement allows for a grid of about n points in dimension d:
    round(n^(1/d)) evaluated exactly, and the k whose k^d is nearest to n."""
    n = int(n)
    k = max(0, int(round(n ** (1.0 / d))) - 2)
    while (2 * k + 1) ** d <= (2 ** d) * n:      # (k+1/2)^d <= n  -> round goes above k
        k += 1
    k_round = k
    cands = range(max(0, k_round - 2), k_round + 3)
    best = min(abs(c ** d - n) for c in cands)
    k_near = {c for c in cands if abs(c ** d - n) == best}
    return {k_round} | k_near
