"""Independent dense reference operators for C08 (no mouette import).

Everything is assembled from the raw data (V float[n,3], F triangle list, C tet list, E edge list).  Where an operator is
indexed by edges, the *numbering* of the edges is an input (`E`, list of (a, b)), because it is a choice of the library;
every value is recomputed here.

Conventions (the textbook ones, stated so that the monitor can say what it compares against):
  * cotangent stiffness matrix  K = sum over triangles (p,q,r), over each of the 3 edges (i,j) opposite to corner k,
    of  cot(angle_k)/2 * (e_i - e_j)(e_i - e_j)^T   -> positive semi-definite, K 1 = 0, K = K^T.
  * uniform variant: the same with cot == 1.
  * graph Laplacian  D - A,  A[i,j] = 1 per edge {i,j}.
  * tangential gradient of f(x) = a.x + b on a triangle with unit normal n:  a - (a.n) n.
"""
import math

import numpy as np


# ----------------------------------------------------------------------------- combinatorics
def edge_key(a, b):
    return (a, b) if a < b else (b, a)


def edges_from_faces(F):
    """Set of undirected edges {(lo,hi)} of a polygon list."""
    out = set()
    for f in F:
        n = len(f)
        for k in range(n):
            out.add(edge_key(int(f[k]), int(f[(k + 1) % n])))
    return out


def edges_from_cells(C):
    out = set()
    for c in C:
        c = [int(v) for v in c]
        for i in range(len(c)):
            for j in range(i + 1, len(c)):
                out.add(edge_key(c[i], c[j]))
    return out


def edge_face_incidence(F):
    """dict undirected edge -> list of incident face ids (one entry per incidence)."""
    out = {}
    for fi, f in enumerate(F):
        n = len(f)
        for k in range(n):
            out.setdefault(edge_key(int(f[k]), int(f[(k + 1) % n])), []).append(fi)
    return out


# ----------------------------------------------------------------------------- triangle geometry
def tri_geometry(V, F):
    """Per triangle: area, unit normal (right-hand rule on the stored order), the three corner cotangents
    (cot[f][k] = cotangent of the angle at F[f][k]) and the smallest sine of a corner angle (conditioning)."""
    V = np.asarray(V, float)
    nF = len(F)
    area = np.zeros(nF)
    normal = np.zeros((nF, 3))
    cot = np.zeros((nF, 3))
    min_sin = 1.0
    for fi, (p, q, r) in enumerate(F):
        P, Q, R = V[p], V[q], V[r]
        nvec = np.cross(Q - P, R - P)
        dbl = float(np.linalg.norm(nvec))  # 2 * area
        area[fi] = dbl / 2
        normal[fi] = nvec / dbl if dbl > 0 else 0.0
        # squared edge lengths: la2 opposite to P (edge QR), lb2 opposite to Q, lc2 opposite to R
        la2 = float(np.dot(R - Q, R - Q))
        lb2 = float(np.dot(P - R, P - R))
        lc2 = float(np.dot(Q - P, Q - P))
        if dbl > 0:
            # law of cosines: cot(angle at P) = (lb2 + lc2 - la2) / (4 * area)
            cot[fi, 0] = (lb2 + lc2 - la2) / (2 * dbl)
            cot[fi, 1] = (lc2 + la2 - lb2) / (2 * dbl)
            cot[fi, 2] = (la2 + lb2 - lc2) / (2 * dbl)
            for (x2, y2) in ((lb2, lc2), (lc2, la2), (la2, lb2)):
                s = dbl / math.sqrt(x2 * y2) if x2 > 0 and y2 > 0 else 0.0
                min_sin = min(min_sin, s)
        else:
            min_sin = 0.0
    return {"area": area, "normal": normal, "cot": cot, "min_sin": min_sin}


def cot_stiffness(nV, F, cot=None):
    """Dense cotangent stiffness matrix.  cot: array [nF,3] of corner cotangents, or None for the uniform variant (cot == 1)."""
    K = np.zeros((nV, nV))
    for fi, f in enumerate(F):
        for k in range(3):
            i, j = int(f[(k + 1) % 3]), int(f[(k + 2) % 3])  # the edge opposite to corner k
            w = 0.5 * (1.0 if cot is None else cot[fi, k])
            K[i, i] += w
            K[j, j] += w
            K[i, j] -= w
            K[j, i] -= w
    return K


def affine_tangential_gradients(normal, a):
    """Per face: the constant tangential gradient of x -> a.x + b, as 3-D vectors."""
    a = np.asarray(a, float)
    return a[None, :] - (normal @ a)[:, None] * normal


# ----------------------------------------------------------------------------- graph operators
def adjacency(nV, E, weights=None):
    A = np.zeros((nV, nV))
    for e, (a, b) in enumerate(E):
        w = 1.0 if weights is None else float(weights[e])
        A[a, b] += w
        A[b, a] += w
    return A


def edge_lengths(V, E):
    V = np.asarray(V, float)
    return [float(math.sqrt(sum((V[a][k] - V[b][k]) ** 2 for k in range(3)))) for (a, b) in E]


def graph_laplacian(nV, E):
    A = adjacency(nV, E)
    return np.diag(A.sum(axis=1)) - A


def vertex_edge_incidence(nV, E, oriented):
    """|V| x |E|; column e = (a, b): +1 at b, and at a: -1 when oriented (a is the origin), +1 otherwise."""
    M = np.zeros((nV, len(E)))
    for e, (a, b) in enumerate(E):
        M[a, e] = -1.0 if oriented else 1.0
        M[b, e] = 1.0
    return M


def vertex_face_average(nV, F):
    """|F| x |V| averaging operator (maps a vertex function to a face function): 1/|f| at every (f, v in f)."""
    M = np.zeros((len(F), nV))
    for fi, f in enumerate(F):
        for v in f:
            M[fi, int(v)] += 1.0 / len(f)
    return M


def dual_graph_laplacian(F):
    """D - A of the face graph: one edge per mesh edge shared by two faces."""
    n = len(F)
    L = np.zeros((n, n))
    for e, fl in edge_face_incidence(F).items():
        if len(fl) == 2 and fl[0] != fl[1]:
            a, b = fl
            L[a, a] += 1
            L[b, b] += 1
            L[a, b] -= 1
            L[b, a] -= 1
    return L


def face_adjacent_pairs(F):
    out = set()
    for e, fl in edge_face_incidence(F).items():
        if len(fl) == 2:
            out.add((fl[0], fl[1]))
            out.add((fl[1], fl[0]))
    return out


def edge_pairs_sharing_face(F, eid):
    """Pairs of edge ids that are two sides of a common triangle. eid: dict (lo,hi) -> id."""
    out = set()
    for f in F:
        ids = [eid[edge_key(int(f[k]), int(f[(k + 1) % len(f)]))] for k in range(len(f))]
        for x in ids:
            for y in ids:
                if x != y:
                    out.add((x, y))
    return out


def edge_cr_stiffness(F, eid, cot=None):
    """Crouzeix-Raviart (edge based) stiffness matrix of a triangulation: for the two sides e1, e2 of a triangle that meet
    at a corner with angle t:  L[e1,e2] = L[e2,e1] -= 2 cot t,  L[e1,e1], L[e2,e2] += 2 cot t  (cot == 1 in the uniform variant)."""
    n = len(eid)
    L = np.zeros((n, n))
    for fi, f in enumerate(F):
        for k in range(3):
            prev, cur, nxt = int(f[(k - 1) % 3]), int(f[k]), int(f[(k + 1) % 3])
            e1, e2 = eid[edge_key(prev, cur)], eid[edge_key(cur, nxt)]
            w = 2.0 * (1.0 if cot is None else cot[fi, k])
            L[e1, e1] += w
            L[e2, e2] += w
            L[e1, e2] -= w
            L[e2, e1] -= w
    return L


def cell_graph_laplacian(C):
    """D - A of the cell graph of a tetrahedral mesh: one edge per triangle shared by two cells."""
    n = len(C)
    tri = {}
    for ci, c in enumerate(C):
        c = [int(v) for v in c]
        for k in range(4):
            t = tuple(sorted(c[:k] + c[k + 1:]))
            tri.setdefault(t, []).append(ci)
    L = np.zeros((n, n))
    for t, cl in tri.items():
        if len(cl) == 2:
            a, b = cl
            L[a, a] += 1
            L[b, b] += 1
            L[a, b] -= 1
            L[b, a] -= 1
    return L


# ----------------------------------------------------------------------------- masses
def vertex_incident_sums(nV, elems, q):
    """out[v] = sum of q[e] over elements e containing v (once per incidence)."""
    out = np.zeros(nV)
    for i, el in enumerate(elems):
        for v in el:
            out[int(v)] += q[i]
    return out


def edge_area_thirds(E, F, area):
    inc = edge_face_incidence(F)
    out = np.zeros(len(E))
    for e, (a, b) in enumerate(E):
        for fi in inc.get(edge_key(a, b), ()):
            out[e] += area[fi] / 3.0
    return out


def tet_volumes(V, C):
    V = np.asarray(V, float)
    out = np.zeros(len(C))
    for i, (a, b, c, d) in enumerate(C):
        out[i] = abs(float(np.dot(np.cross(V[b] - V[a], V[c] - V[a]), V[d] - V[a]))) / 6.0
    return out


def tet_fem_stiffness(V, C):
    """P1 finite-element stiffness matrix of a tetrahedral mesh: K[i,j] = sum over cells of vol * grad(phi_i) . grad(phi_j)
    (equal to the n-D cotangent formula  -1/6 * sum l_kl cot(theta_kl)  off the diagonal)."""
    V = np.asarray(V, float)
    n = len(V)
    K = np.zeros((n, n))
    for c in C:
        c = [int(v) for v in c]
        Dm = V[c[1:]] - V[c[0]]          # rows: edge vectors p1-p0, p2-p0, p3-p0 (all of the size of the cell: unit independent)
        Gi = np.linalg.inv(Dm)           # column a-1 = gradient of the hat function of local vertex a (a = 1, 2, 3)
        G = np.c_[-Gi.sum(axis=1), Gi]   # 3 x 4, the hat functions sum to 1
        vol = abs(float(np.linalg.det(Dm))) / 6.0
        Kt = vol * (G.T @ G)
        for a in range(4):
            for b in range(4):
                K[c[a], c[b]] += Kt[a, b]
    return K


def tet_min_dihedral_cos(V, C):
    """Smallest cosine of a dihedral angle over all (cell, edge) pairs: < 0 iff some dihedral angle is obtuse."""
    V = np.asarray(V, float)
    m = 1.0
    for c in C:
        c = [int(v) for v in c]
        for i in range(4):
            for j in range(i + 1, 4):
                k, l = [x for x in range(4) if x not in (i, j)]
                e = V[c[j]] - V[c[i]]
                n1 = np.cross(e, V[c[k]] - V[c[i]])
                n2 = np.cross(e, V[c[l]] - V[c[i]])
                d = float(np.linalg.norm(n1) * np.linalg.norm(n2))
                if d > 0:
                    m = min(m, float(n1 @ n2) / d)
    return m


# ----------------------------------------------------------------------------- dense comparison helpers
def row_norms(*mats):
    """max over the given matrices of the row 1-norms (vector of length n_rows)."""
    out = None
    for M in mats:
        r = np.abs(M).sum(axis=1)
        out = r if out is None else np.maximum(out, r)
    return np.asarray(out).ravel()


def worst_entry(D, tol_rows):
    """(ok, i, j, excess) for |D[i,j]| <= tol_rows[i]; NaN counts as a failure."""
    D = np.asarray(D)
    if D.size == 0:
        return True, -1, -1, 0.0
    A = np.abs(D)
    bad = ~(A <= tol_rows[:, None])
    if not bad.any():
        return True, -1, -1, float(A.max())
    A2 = np.where(np.isnan(A), np.inf, A) - tol_rows[:, None]
    A2 = np.where(bad, A2, -np.inf)
    k = int(np.argmax(A2))
    i, j = divmod(k, D.shape[1])
    return False, i, j, float(A[i, j]) if not np.isnan(A[i, j]) else float("nan")
