"""Reference arithmetic for C12 (never imports mouette).

Exact evaluation (fractions.Fraction) of the polynomial primitives on the *same float inputs* the library saw, plus
overflow/underflow-safe norms in plain Python floats.  Every function takes plain Python numbers."""
import math
from fractions import Fraction

ULP = 2.0 ** -52


def F(x):
    """Exact rational value of an int / float (numpy scalars are converted by the caller)."""
    if isinstance(x, bool):
        return Fraction(int(x))
    if isinstance(x, int):
        return Fraction(x)
    return Fraction(float(x))


def cross_exact(a, b):
    """-> ([c0,c1,c2] exact Fractions, [s0,s1,s2] sum of |terms| per component, list of all term magnitudes)."""
    a = [F(v) for v in a]
    b = [F(v) for v in b]
    pairs = [((a[1], b[2]), (a[2], b[1])), ((b[0], a[2]), (b[2], a[0])), ((a[0], b[1]), (a[1], b[0]))]
    out, mags, terms = [], [], []
    for (p, q), (r, s) in pairs:
        t1, t2 = p * q, r * s
        out.append(t1 - t2)
        mags.append(abs(t1) + abs(t2))
        terms += [abs(t1), abs(t2)]
    return out, mags, terms


def det2_exact(ax, ay, bx, by):
    t1, t2 = F(ax) * F(by), F(ay) * F(bx)
    return t1 - t2, abs(t1) + abs(t2), [abs(t1), abs(t2)]


def det3_exact(m):
    """m: 3x3 nested list.  Leibniz expansion, exact."""
    m = [[F(v) for v in row] for row in m]
    plus = [(0, 1, 2), (1, 2, 0), (2, 0, 1)]
    minus = [(0, 2, 1), (1, 0, 2), (2, 1, 0)]
    d, mag, terms = Fraction(0), Fraction(0), []
    for p in plus:
        t = m[0][p[0]] * m[1][p[1]] * m[2][p[2]]
        d += t
        mag += abs(t)
        terms.append(abs(t))
        terms.append(abs(m[0][p[0]] * m[1][p[1]]))
    for p in minus:
        t = m[0][p[0]] * m[1][p[1]] * m[2][p[2]]
        d -= t
        mag += abs(t)
        terms.append(abs(t))
        terms.append(abs(m[0][p[0]] * m[1][p[1]]))
    return d, mag, terms


def in_normal_range(terms, lo=1e-290, hi=1e300):
    """True when every non-zero intermediate magnitude is a comfortably normal double (no under/overflow)."""
    for t in terms:
        if t == 0:
            continue
        if t < Fraction(lo) or t > Fraction(hi):
            return False
    return True


def close_to_exact(got, exact, mag, ulps=8, extra=0.0):
    """|got - exact| <= ulps * 2^-52 * mag (+extra), all evaluated exactly."""
    try:
        g = F(got)
    except (ValueError, OverflowError, TypeError):  # nan / inf / not a number
        return False
    return abs(g - exact) <= Fraction(ulps) * Fraction(ULP) * mag + Fraction(extra)


# ---------------------------------------------------------------------------- safe float norms
def norm(v, which="l2"):
    v = [float(x) for x in v]
    if not v:
        return 0.0
    if which == "l2":
        return math.hypot(*v)
    if which == "l1":
        return math.fsum(abs(x) for x in v)
    if which == "linf":
        return max(abs(x) for x in v)
    raise KeyError(which)


def sub(a, b):
    return [float(x) - float(y) for x, y in zip(a, b)]


def dist(a, b, which="l2"):
    return norm(sub(a, b), which)


def dot(a, b):
    return math.fsum(float(x) * float(y) for x, y in zip(a, b))


def cross_f(a, b):
    return [a[1] * b[2] - a[2] * b[1], a[2] * b[0] - a[0] * b[2], a[0] * b[1] - a[1] * b[0]]


def unit(v):
    """Direction of v computed without overflow (scale by the largest component first)."""
    m = max(abs(float(x)) for x in v)
    if m == 0:
        return None
    w = [float(x) / m for x in v]
    n = math.hypot(*w)
    return [x / n for x in w]


def angle_between(u, w):
    """Robust angle in [0,pi] between two 3-D vectors (normalised first, so scale-free)."""
    a, b = unit(u), unit(w)
    if a is None or b is None:
        return None
    c = cross_f(a, b)
    return math.atan2(math.hypot(*c), dot(a, b))


def mod_2pi_residual(x):
    """Distance of x to the nearest multiple of 2*pi."""
    k = round(x / (2 * math.pi))
    return abs(x - k * 2 * math.pi)
