"""C07 reference: textbook geometric quantities evaluated directly with numpy from raw (V, F) / (V, C).

No mouette import, no shared code with mouette.  Everything is computed from the definitions:

  edge length |q-p|, midpoint (p+q)/2
  polygon vector area  A = 1/2 sum_i (p_i - p_0) x (p_{i+1} - p_0)   (Newell);  area = |A|,  unit normal = A/|A|
      -> only *judged* on triangles and on polygon faces that are planar and strictly convex (`face_ok`)
  face barycentre = mean of the face's vertices
  corner angle at p between the two edges of the face meeting in p:  atan2(|u x w|, u.w);  cotangent (u.w)/|u x w|
  cotangent weight of an edge = 1/2 * sum over the (one or two) incident triangles of the cotangent of the opposite corner
  vertex normal = normalised sum over incident faces of  w_f * n_f,  w_f = 1 (uniform) | area_f (area) | corner angle (angle)
  angle defect = 2 pi - sum of corner angles (interior), pi - sum (border), 0 on the border with zero_border
  degree = number of distinct neighbours; Euler characteristic V - E + F
  tetrahedron volume |(a-d).((b-d)x(c-d))| / 6, cell barycentre = mean of its vertices

The circumcentre is not recomputed: `circumcentre_residuals` measures how far a candidate point is from being
equidistant to the three vertices and from lying in the triangle's plane (the two facts that define it)."""
import math

import numpy as np

PI = math.pi


def _v(p):
    return np.asarray(p, dtype=float).reshape(-1)


def length(p, q):
    d = _v(q) - _v(p)
    return math.sqrt(float(d @ d))


def midpoint(p, q):
    return (_v(p) + _v(q)) / 2.0


def corner_angle(pprev, p, pnext):
    u = _v(pprev) - _v(p)
    w = _v(pnext) - _v(p)
    c = np.cross(u, w)
    return math.atan2(math.sqrt(float(c @ c)), float(u @ w))


def corner_cot(pprev, p, pnext):
    u = _v(pprev) - _v(p)
    w = _v(pnext) - _v(p)
    c = np.cross(u, w)
    return float(u @ w) / math.sqrt(float(c @ c))


def exact_corner(pprev, p, pnext):
    """(angle, cotangent) of the corner at p, from EXACT rational arithmetic on the stored coordinates (cross and dot products of
    nearly parallel edges cancel catastrophically in floating point): correctly rounded |u x w|^2 and u.w, then sqrt / atan2 / division,
    i.e. accurate to a few ulps of the angle itself however small it is."""
    from fractions import Fraction
    a = [Fraction(float(x)) - Fraction(float(y)) for x, y in zip(pprev, p)]
    b = [Fraction(float(x)) - Fraction(float(y)) for x, y in zip(pnext, p)]
    cx = a[1] * b[2] - a[2] * b[1]
    cy = a[2] * b[0] - a[0] * b[2]
    cz = a[0] * b[1] - a[1] * b[0]
    n2 = cx * cx + cy * cy + cz * cz
    d = a[0] * b[0] + a[1] * b[1] + a[2] * b[2]
    # scale to avoid under/overflow of the float conversion of n2 (edges of any length)
    la2 = a[0] * a[0] + a[1] * a[1] + a[2] * a[2]
    lb2 = b[0] * b[0] + b[1] * b[1] + b[2] * b[2]
    s = math.sqrt(float(n2 / (la2 * lb2)))
    c = float(d) / math.sqrt(float(la2 * lb2))
    return math.atan2(s, c), (c / s if s > 0 else float("inf"))


def topo_counts(nV, F):
    """V, E, F and the Euler characteristic of a polygon surface from its face list."""
    es = set()
    for f in F:
        n = len(f)
        for k in range(n):
            a, b = f[k], f[(k + 1) % n]
            es.add((min(a, b), max(a, b)))
    return {"V": nV, "E": len(es), "F": len(F), "chi": nV - len(es) + len(F)}


def vector_area(P):
    P = np.asarray(P, dtype=float)
    A = np.zeros(3)
    for i in range(1, len(P) - 1):
        A += np.cross(P[i] - P[0], P[i + 1] - P[0])
    return A / 2.0


def polygon_area(P):
    A = vector_area(P)
    return math.sqrt(float(A @ A))


def polygon_normal(P):
    A = vector_area(P)
    return A / math.sqrt(float(A @ A))


def barycentre(P):
    return np.mean(np.asarray(P, dtype=float), axis=0)


def face_shape(P):
    """(flatness, min_turn_sin, turning_number) of a polygon: flatness = max distance to the plane through the
    barycentre with the Newell normal, divided by the diameter; min_turn_sin = smallest sine of an exterior turning angle
    measured around that normal (<= 0 for a reflex or straight corner); turning_number = sum of turning angles / 2 pi."""
    P = np.asarray(P, dtype=float)
    n = len(P)
    A = vector_area(P)
    nA = math.sqrt(float(A @ A))
    diam = max(float(np.linalg.norm(P[i] - P[j])) for i in range(n) for j in range(i))
    if nA == 0.0 or diam == 0.0:
        return float("inf"), -1.0, 0.0
    N = A / nA
    c = barycentre(P)
    flat = max(abs(float((p - c) @ N)) for p in P) / diam
    mins = 2.0
    tot = 0.0
    for i in range(n):
        u = P[i] - P[i - 1]
        w = P[(i + 1) % n] - P[i]
        cr = float(np.cross(u, w) @ N)
        dt = float(u @ w)
        lu, lw = math.sqrt(float(u @ u)), math.sqrt(float(w @ w))
        if lu == 0.0 or lw == 0.0:
            return float("inf"), -1.0, 0.0
        mins = min(mins, cr / (lu * lw))
        tot += math.atan2(cr, dt)
    return flat, mins, tot / (2 * PI)


def face_turns(P):
    """(flatness, array of sines of the exterior turning angles around the Newell normal, turning number)."""
    P = np.asarray(P, dtype=float)
    n = len(P)
    A = vector_area(P)
    nA = math.sqrt(float(A @ A))
    diam = max(float(np.linalg.norm(P[i] - P[j])) for i in range(n) for j in range(i))
    if nA == 0.0 or diam == 0.0:
        return float("inf"), np.full(n, -1.0), 0.0
    N = A / nA
    c = barycentre(P)
    flat = max(abs(float((p - c) @ N)) for p in P) / diam
    sins = np.zeros(n)
    tot = 0.0
    for i in range(n):
        u = P[i] - P[i - 1]
        w = P[(i + 1) % n] - P[i]
        cr = float(np.cross(u, w) @ N)
        lu, lw = math.sqrt(float(u @ u)), math.sqrt(float(w @ w))
        if lu == 0.0 or lw == 0.0:
            return float("inf"), np.full(n, -1.0), 0.0
        sins[i] = cr / (lu * lw)
        tot += math.atan2(cr, float(u @ w))
    return flat, sins, tot / (2 * PI)


def is_simple_planar(P, margin=1e-6):
    """True when no two non-adjacent edges of the (planar) polygon come closer than margin * diameter (2-D test in the polygon's plane)."""
    P = np.asarray(P, dtype=float)
    n = len(P)
    N = polygon_normal(P)
    X = P[1] - P[0]
    X = X / np.linalg.norm(X)
    Y = np.cross(N, X)
    Q = np.c_[(P - P[0]) @ X, (P - P[0]) @ Y]
    diam = max(float(np.linalg.norm(Q[i] - Q[j])) for i in range(n) for j in range(i))

    def seg_dist(a, b, c, d):
        def pt_seg(p, s, t):
            st = t - s
            L2 = float(st @ st)
            u = 0.0 if L2 == 0 else max(0.0, min(1.0, float((p - s) @ st) / L2))
            return float(np.linalg.norm(p - (s + u * st)))

        def orient(p, q, r):
            return (q[0] - p[0]) * (r[1] - p[1]) - (q[1] - p[1]) * (r[0] - p[0])
        o1, o2, o3, o4 = orient(a, b, c), orient(a, b, d), orient(c, d, a), orient(c, d, b)
        if (o1 > 0) != (o2 > 0) and (o3 > 0) != (o4 > 0) and o1 * o2 != 0 and o3 * o4 != 0:
            return 0.0
        return min(pt_seg(a, c, d), pt_seg(b, c, d), pt_seg(c, a, b), pt_seg(d, a, b))
    for i in range(n):
        for j in range(i + 1, n):
            if j == i or (j + 1) % n == i or (i + 1) % n == j:
                continue
            if seg_dist(Q[i], Q[(i + 1) % n], Q[j], Q[(j + 1) % n]) <= margin * diam:
                return False
    return True


def star_margin_from_vertex_mean(P):
    """min over the edges of the signed area of (p_i, p_{i+1}, mean vertex) w.r.t. the polygon's orientation, divided by diameter^2:
    >= 0 exactly when the polygon is star-shaped around the mean of its vertices."""
    P = np.asarray(P, dtype=float)
    n = len(P)
    N = polygon_normal(P)
    c = barycentre(P)
    diam = max(float(np.linalg.norm(P[i] - P[j])) for i in range(n) for j in range(i))
    return min(float(np.cross(P[i] - c, P[(i + 1) % n] - c) @ N) / 2.0 for i in range(n)) / diam ** 2


def circumradius(A, B, C):
    a, b, c = length(B, C), length(C, A), length(A, B)
    ar = polygon_area([A, B, C])
    return a * b * c / (4.0 * ar)


def circumcentre_residuals(X, A, B, C):
    """(spread of the three distances X-vertex, distance of X to the triangle's plane)."""
    X, A, B, C = _v(X), _v(A), _v(B), _v(C)
    d = [length(X, A), length(X, B), length(X, C)]
    N = polygon_normal([A, B, C])
    return max(d) - min(d), abs(float((X - A) @ N))


def triangle_aspect_ratio(A, B, C):
    """circumradius / (2 inradius) = abc / (8 (s-a)(s-b)(s-c)); 1 for the equilateral triangle, larger otherwise."""
    a, b, c = length(B, C), length(C, A), length(A, B)
    s = (a + b + c) / 2.0
    return a * b * c / (8.0 * (s - a) * (s - b) * (s - c))


def tet_volume(a, b, c, d):
    a, b, c, d = _v(a), _v(b), _v(c), _v(d)
    return abs(float((a - d) @ np.cross(b - d, c - d))) / 6.0


class SurfaceRef:
    """All C07 quantities of a polygon surface given as raw (V, F)."""

    FLAT_TOL = 1e-13          # relative out-of-plane distance under which a polygon face counts as planar
    TURN_SIN_MIN = 0.05       # sin of the smallest / largest admissible turning angle (about 2.9 deg / 177.1 deg)

    def __init__(self, V, F):
        self.V = np.asarray(V, dtype=float).reshape(-1, 3)
        self.F = [[int(v) for v in f] for f in F]
        self.nV = len(self.V)
        self.nF = len(self.F)
        self.tri = all(len(f) == 3 for f in self.F)
        V = self.V
        # undirected edges -> incident (face, index of the first endpoint in the face)
        self.edge_faces = {}
        for fi, f in enumerate(self.F):
            n = len(f)
            for k in range(n):
                a, b = f[k], f[(k + 1) % n]
                self.edge_faces.setdefault((min(a, b), max(a, b)), []).append((fi, k))
        self.edges = sorted(self.edge_faces)
        self.nE = len(self.edges)
        self.border_edges = {e for e, l in self.edge_faces.items() if len(l) == 1}
        self.border_vertices = {v for e in self.border_edges for v in e}
        self.chi = self.nV - self.nE + self.nF
        nb = [set() for _ in range(self.nV)]
        for a, b in self.edges:
            nb[a].add(b)
            nb[b].add(a)
        self.degree = np.array([len(s) for s in nb], dtype=int)
        self.edge_len = {e: length(V[e[0]], V[e[1]]) for e in self.edges}
        self.lmin = min(self.edge_len.values())
        self.lmax = max(self.edge_len.values())
        self.mean_edge_length = sum(self.edge_len.values()) / self.nE
        self.barycenter = np.mean(V, axis=0)
        self.maxabs = float(np.max(np.abs(V)))
        # faces
        self.face_ok = []            # triangle, or planar strictly convex polygon
        self.face_nc = []            # planar simple NON-convex polygon with clearly convex / clearly reflex corners
        self.area_regular = []       # area judged under the plain op: face_ok, or non-convex >=5-gon star-shaped around its vertex mean
        self.area_hard = []          # non-convex quad, or non-convex polygon that is not star-shaped around its vertex mean
        self.reflex = set()          # (face, vertex) of reflex corners of the non-convex faces
        self.area = np.zeros(self.nF)
        self.normal = np.zeros((self.nF, 3))
        self.fbary = np.zeros((self.nF, 3))
        self.fdiam = np.zeros(self.nF)
        for fi, f in enumerate(self.F):
            P = V[f]
            self.fbary[fi] = barycentre(P)
            self.fdiam[fi] = max(float(np.linalg.norm(P[i] - P[j])) for i in range(len(f)) for j in range(i))
            nc = False
            star = False
            if len(f) == 3:
                ok = True
            else:
                flat, sins, turn = face_turns(P)
                planar = flat <= self.FLAT_TOL and abs(turn - 1.0) < 1e-6
                ok = bool(planar and np.min(sins) >= self.TURN_SIN_MIN)
                if planar and not ok and np.min(np.abs(sins)) >= self.TURN_SIN_MIN and np.min(sins) < 0 and is_simple_planar(P):
                    nc = True
                    star = len(f) >= 5 and star_margin_from_vertex_mean(P) >= -1e-13
                    for k in range(len(f)):
                        if sins[k] < 0:
                            self.reflex.add((fi, f[k]))
            self.face_ok.append(ok)
            self.face_nc.append(nc)
            self.area_regular.append(ok or (nc and star))
            self.area_hard.append(nc and not star)
            A = vector_area(P)
            nA = math.sqrt(float(A @ A))
            self.area[fi] = nA
            self.normal[fi] = A / nA if nA > 0 else np.zeros(3)
        self.all_faces_ok = all(self.face_ok)
        self.all_area_regular = all(self.area_regular)
        self.all_area_judged = all(a or b for a, b in zip(self.area_regular, self.area_hard))
        self.total_area = float(np.sum(self.area))
        self.mean_face_area = self.total_area / self.nF
        # corners: (face, vertex) -> angle / cotangent
        self.angle = {}
        self.cot = {}
        self.vfaces = [[] for _ in range(self.nV)]
        for fi, f in enumerate(self.F):
            n = len(f)
            for k in range(n):
                pv, v, nx = f[(k - 1) % n], f[k], f[(k + 1) % n]
                self.angle[(fi, v)] = corner_angle(V[pv], V[v], V[nx])
                if n == 3:
                    self.cot[(fi, v)] = corner_cot(V[pv], V[v], V[nx])
                self.vfaces[v].append(fi)
        self.min_angle = min(self.angle.values())
        self.max_angle = max(self.angle.values())
        self.tri_min_angle = min([a for (fi, v), a in self.angle.items() if len(self.F[fi]) == 3] or [PI / 3])

    # -- per-edge
    def cot_weight(self, a, b):
        """1/2 sum of the cotangents of the corners opposite to edge (a,b); also the largest |cot| involved."""
        w = 0.0
        big = 0.0
        for fi, k in self.edge_faces[(min(a, b), max(a, b))]:
            f = self.F[fi]
            opp = [v for v in f if v != a and v != b][0]
            c = self.cot[(fi, opp)]
            w += c / 2.0
            big = max(big, abs(c))
        return w, big

    # -- per-vertex
    def vertex_normal(self, v, weighting):
        """(unit normal, conditioning = |sum w n| / sum w, judged?)"""
        s = np.zeros(3)
        tot = 0.0
        judged = True
        for fi in self.vfaces[v]:
            if not self.face_ok[fi]:
                judged = False
            if weighting == "uniform":
                w = 1.0
            elif weighting == "area":
                w = self.area[fi]
            elif weighting == "angle":
                w = self.angle[(fi, v)]
            else:
                raise KeyError(weighting)
            s += w * self.normal[fi]
            tot += w
        ns = math.sqrt(float(s @ s))
        if ns == 0.0 or tot == 0.0:
            return np.zeros(3), 0.0, False
        return s / ns, ns / tot, judged

    def aspect_ratios(self):
        """abc/(8(s-a)(s-b)(s-c)) per triangle, -1 for every other face (the documented value)."""
        return np.array([triangle_aspect_ratio(*self.V[f]) if len(f) == 3 else -1.0 for f in self.F])

    def near_border(self, dist):
        """Faces at dual (edge-adjacency) distance < dist from a face that has a border edge; nothing on a closed surface."""
        d = {}
        front = sorted({fi for e in self.border_edges for fi, _ in self.edge_faces[e]})
        for fi in front:
            d[fi] = 0
        adj = [set() for _ in range(self.nF)]
        for e, l in self.edge_faces.items():
            if len(l) == 2:
                adj[l[0][0]].add(l[1][0])
                adj[l[1][0]].add(l[0][0])
        k = 0
        while front:
            k += 1
            nxt = []
            for fi in front:
                for g in adj[fi]:
                    if g not in d:
                        d[g] = k
                        nxt.append(g)
            front = nxt
        return np.array([1.0 if (fi in d and d[fi] < dist) else 0.0 for fi in range(self.nF)])

    def edge_curvature_matrix(self, a, b):
        """(dihedral angle between the normals of the two incident faces) * outer(unit edge, unit edge); zero matrix on a border edge.
        Third value: judged? (both faces triangles / planar convex)."""
        l = self.edge_faces[(min(a, b), max(a, b))]
        if len(l) != 2:
            return np.zeros((3, 3)), 0.0, True
        f1, f2 = l[0][0], l[1][0]
        n1, n2 = self.normal[f1], self.normal[f2]
        c = np.cross(n1, n2)
        ang = math.atan2(math.sqrt(float(c @ c)), float(n1 @ n2))
        e = self.V[b] - self.V[a]
        e = e / math.sqrt(float(e @ e))
        return ang * np.outer(e, e), ang, bool(self.face_ok[f1] and self.face_ok[f2])

    def defect(self, v, zero_border=False):
        s = sum(self.angle[(fi, v)] for fi in self.vfaces[v])
        if v in self.border_vertices:
            return 0.0 if zero_border else PI - s
        return 2 * PI - s


class VolumeRef:
    """C07 quantities of a tetrahedral mesh given as raw (V, C)."""

    def __init__(self, V, C):
        self.V = np.asarray(V, dtype=float).reshape(-1, 3)
        self.C = [[int(v) for v in c] for c in C]
        self.nV = len(self.V)
        self.nC = len(self.C)
        V = self.V
        es = set()
        fs = set()
        for c in self.C:
            for i in range(4):
                for j in range(i):
                    es.add((min(c[i], c[j]), max(c[i], c[j])))
                fs.add(tuple(sorted(c[:i] + c[i + 1:])))
        self.edges = sorted(es)
        self.faces = sorted(fs)
        nb = [set() for _ in range(self.nV)]
        for a, b in self.edges:
            nb[a].add(b)
            nb[b].add(a)
        self.degree = np.array([len(s) for s in nb], dtype=int)
        cnt = {}
        for c in self.C:
            for i in range(4):
                k = tuple(sorted(c[:i] + c[i + 1:]))
                cnt[k] = cnt.get(k, 0) + 1
        self.cell_border_faces = np.array([sum(1 for i in range(4) if cnt[tuple(sorted(c[:i] + c[i + 1:]))] == 1) for c in self.C], dtype=int)
        self.volume = np.array([tet_volume(*(V[i] for i in c)) for c in self.C])
        self.cbary = np.array([barycentre(V[c]) for c in self.C])
        self.cdiam = np.array([max(float(np.linalg.norm(V[c[i]] - V[c[j]])) for i in range(4) for j in range(i)) for c in self.C])
        self.mean_cell_volume = float(np.sum(self.volume)) / self.nC
        self.edge_len = {e: length(V[e[0]], V[e[1]]) for e in self.edges}
        self.lmin = min(self.edge_len.values())
        self.lmax = max(self.edge_len.values())
        self.mean_edge_length = sum(self.edge_len.values()) / len(self.edges)
        self.barycenter = np.mean(V, axis=0)
        self.maxabs = float(np.max(np.abs(V)))
        self.face_area = {f: polygon_area(V[list(f)]) for f in self.faces}
        self.mean_face_area = sum(self.face_area.values()) / len(self.faces)
        self.tri_min_angle = min(corner_angle(V[f[(k - 1) % 3]], V[f[k]], V[f[(k + 1) % 3]]) for f in self.faces for k in range(3))
