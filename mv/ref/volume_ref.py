"""Reference connectivity of a conforming tetrahedral mesh, from the cell list alone (no mouette import)."""


def tri(a, b, c):
    return tuple(sorted((a, b, c)))


def edge(a, b):
    return (a, b) if a < b else (b, a)


class RefVolume:
    def __init__(self, nV, C):
        self.nV = nV
        self.C = [list(map(int, c)) for c in C]
        self.face_cells = {}  # sorted triple -> [cells]
        self.opp_face = []  # per cell: [triple opposite vertex i]
        for ci, c in enumerate(self.C):
            row = []
            for i in range(4):
                t = tuple(sorted(c[:i] + c[i + 1:]))
                row.append(t)
                self.face_cells.setdefault(t, []).append(ci)
            self.opp_face.append(row)
        self.faces = set(self.face_cells)
        self.border_faces = {t for t, l in self.face_cells.items() if len(l) == 1}
        self.edges = set()
        self.edge_cells = {}
        self.edge_faces = {}
        for ci, c in enumerate(self.C):
            for i in range(4):
                for j in range(i):
                    e = edge(c[i], c[j])
                    self.edges.add(e)
                    self.edge_cells.setdefault(e, set()).add(ci)
        for t in self.faces:
            for (a, b) in ((t[0], t[1]), (t[0], t[2]), (t[1], t[2])):
                self.edge_faces.setdefault(edge(a, b), set()).add(t)
        self.border_edges = {edge(a, b) for t in self.border_faces for (a, b) in ((t[0], t[1]), (t[0], t[2]), (t[1], t[2]))}
        self.border_vertices = {v for t in self.border_faces for v in t}
        self.v2c = {v: set() for v in range(nV)}
        for ci, c in enumerate(self.C):
            for v in c:
                self.v2c[v].add(ci)
        self.cell_nbrs = []
        for ci in range(len(self.C)):
            nb = []
            for t in self.opp_face[ci]:
                for cj in self.face_cells[t]:
                    if cj != ci:
                        nb.append(cj)
            self.cell_nbrs.append(nb)

    def cells_share_face_with_edge(self, e, c1, c2):
        if c1 == c2:
            return False
        s = set(self.C[c1]) & set(self.C[c2])
        return len(s) == 3 and e[0] in s and e[1] in s

    def check_cell_ring(self, e, ring):
        want = self.edge_cells[e]
        if sorted(ring) != sorted(want):
            return "not_the_incident_cells"
        n = len(ring)
        for i in range(n - 1):
            if not self.cells_share_face_with_edge(e, ring[i], ring[i + 1]):
                return "consecutive_cells_do_not_share_a_face_at_the_edge"
        if e not in self.border_edges and n > 2:
            if not self.cells_share_face_with_edge(e, ring[-1], ring[0]):
                return "ring_not_closed"
        return None

    def faces_in_common_cell(self, t1, t2):
        if t1 == t2:
            return False
        return bool(set(self.face_cells[t1]) & set(self.face_cells[t2]))

    def check_face_ring(self, e, ring):
        """ring: list of sorted triples around edge e."""
        want = self.edge_faces[e]
        if sorted(ring) != sorted(want):
            return "not_the_incident_faces"
        n = len(ring)
        for i in range(n - 1):
            if not self.faces_in_common_cell(ring[i], ring[i + 1]):
                return "consecutive_faces_not_in_a_common_cell"
        if e not in self.border_edges and n > 2:
            if not self.faces_in_common_cell(ring[-1], ring[0]):
                return "ring_not_closed"
        if e in self.border_edges and n >= 2:
            if not (ring[0] in self.border_faces and ring[-1] in self.border_faces):
                return "border_fan_does_not_run_between_border_faces"
        return None
