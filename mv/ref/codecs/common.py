"""Helpers shared by the reference codecs (no mouette import)."""
import re
import struct


class FormatError(Exception):
    """The file does not conform to the format description.  `code` is a short stable slug of the reason
    (no numbers, names or values from the file) that monitors may put into mechanism strings."""

    def __init__(self, msg, code=None):
        Exception.__init__(self, msg)
        self.code = code or slug(msg)


def slug(msg, limit=60):
    s = re.sub(r"[0-9]+", "N", str(msg))
    s = re.sub(r"[^A-Za-z]+", "_", s).strip("_").lower()
    return s[:limit]


DIALECT_KEYS = ("eol", "float", "comments", "blank", "trail_ws", "indent", "ref", "order", "extras")


def dialect(**kw):
    d = {"eol": "\n", "float": "repr", "comments": False, "blank": False, "trail_ws": False, "indent": False,
         "ref": 1, "order": 0, "extras": False}
    d.update(kw)
    return d


def fmt_float(x, how):
    """Text of a double that parses back to exactly the same double (all styles are exact)."""
    x = float(x)
    if how == "repr":
        return repr(x)
    if how == "17g":
        return "%.17g" % x
    if how == "exp":
        return "%.16e" % x
    if how == "EXP":
        return "%.16E" % x
    if how == "exp3":
        # sign-mantissa-'e'-sign-exponent with a three-digit exponent (the number form shown in the STL description: -2.648000e-002)
        m, e = ("%.16e" % x).split("e")
        return "%se%s%03d" % (m, e[0], int(e[1:]))
    if how == "intlike":
        if x == int(x) and abs(x) < 1e15 and not (x == 0 and struct.pack(">d", x)[0] & 0x80):
            return "%d" % int(x)
        return repr(x)
    if how == "fixed":
        # plain positional notation when it is short and exact, else repr
        if x == 0 or 1e-4 <= abs(x) < 1e15:
            s = "%.20f" % x
            if float(s) == x:
                s = s.rstrip("0")
                return s + "0" if s.endswith(".") else s
        return repr(x)
    raise KeyError(how)


def bits(x):
    return struct.pack(">d", float(x))


def same_double(a, b):
    """Bit-exact equality of two doubles (distinguishes -0.0 from 0.0)."""
    return bits(a) == bits(b)


def to_float(tok, what="number"):
    try:
        return float(tok)
    except ValueError:
        raise FormatError("%s expected, found %r" % (what, tok[:40]))


def to_int(tok, what="integer"):
    try:
        return int(tok)
    except ValueError:
        raise FormatError("%s expected, found %r" % (what, tok[:40]))


class LineWriter:
    """Collects lines and applies the line-level parts of a dialect."""

    def __init__(self, d, comment_prefix="#"):
        self.d = d
        self.lines = []
        self.cp = comment_prefix

    def line(self, s):
        if self.d.get("indent"):
            s = "  " + s
        if self.d.get("trail_ws"):
            s = s + " "
        self.lines.append(s)

    def comment(self, s):
        if self.d.get("comments") and self.cp:
            self.lines.append(self.cp + " " + s)

    def blank(self):
        if self.d.get("blank"):
            self.lines.append("")

    def text(self):
        eol = self.d.get("eol", "\n")
        return eol.join(self.lines) + eol

    def save(self, path):
        with open(path, "w", newline="") as f:
            f.write(self.text())
