"""Geomview OFF (plain 3-D variant).

Format description: optional keyword line `OFF`; then `nv nf ne`; nv lines `x y z`; nf lines `n i0 .. i(n-1) [colour]`
(0-based indices, n >= 1 vertices per face, optional colour components after the indices); '#' starts a comment,
blank lines are ignored; ne is informative and may be 0."""
from .common import FormatError, LineWriter, fmt_float, to_float, to_int


def read(path):
    with open(path, "r", newline="") as f:
        text = f.read()
    lines = []
    for raw in text.replace("\r\n", "\n").replace("\r", "\n").split("\n"):
        s = raw.split("#", 1)[0].strip()
        if s:
            lines.append(s.split())
    if not lines:
        raise FormatError("empty file")
    if lines[0][0] == "OFF":
        first = lines[0][1:]
        lines = lines[1:]
        if first:
            lines.insert(0, first)
    elif lines[0][0].endswith("OFF"):
        raise FormatError("OFF variant %r not supported by the reference reader" % lines[0][0])
    if not lines or len(lines[0]) < 2:
        raise FormatError("counts line missing")
    cnt = [to_int(t, "count") for t in lines[0][:3]]
    nv, nf = cnt[0], cnt[1]
    ne = cnt[2] if len(cnt) > 2 else 0
    body = lines[1:]
    if len(body) < nv + nf:
        raise FormatError("file announces %d vertices and %d faces but has %d data lines" % (nv, nf, len(body)))
    if len(body) > nv + nf:
        raise FormatError("%d data lines after the announced vertices and faces" % (len(body) - nv - nf))
    V = []
    for t in body[:nv]:
        if len(t) < 3:
            raise FormatError("vertex line with fewer than 3 coordinates")
        V.append(tuple(to_float(x) for x in t[:3]))
    F = []
    for t in body[nv:nv + nf]:
        n = to_int(t[0], "face size")
        if n < 1 or len(t) < 1 + n:
            raise FormatError("face line shorter than its announced size")
        ids = [to_int(x, "vertex index") for x in t[1:1 + n]]
        for i in ids:
            if not 0 <= i < nv:
                raise FormatError("vertex index out of range")
        F.append(ids)
    return {"V": V, "E": [], "F": F, "C": [], "ne": ne}


def write(path, data, d):
    """dialect keys used: eol, float, comments, blank, trail_ws, indent, order (0: ne=0, 1: ne = Euler-style edge count),
    extras (RGB colour after each face)."""
    w = LineWriter(d)
    V, F = data["V"], data.get("F", [])
    w.lines.append("OFF")
    w.comment("written by the reference OFF writer")
    ne = 0
    if d.get("order") == 1:
        ne = len({(min(a, b), max(a, b)) for f in F for a, b in zip(f, f[1:] + f[:1])})
    w.line("%d %d %d" % (len(V), len(F), ne))
    w.blank()
    for p in V:
        w.line(" ".join(fmt_float(c, d["float"]) for c in p))
    w.blank()
    w.comment("faces")
    for f in F:
        s = "%d " % len(f) + " ".join("%d" % v for v in f)
        if d.get("extras"):
            s += " 0.5 0.25 1.0"
        w.line(s)
    w.save(path)
