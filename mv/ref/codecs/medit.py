"""Medit / INRIA .mesh (ASCII).

Format description (libMeshb): free-format token stream, '#' comments to end of line; `MeshVersionFormatted v`, `Dimension d`,
then keyword sections, each `Keyword n` followed by n records: Vertices (d coordinates + reference), Edges (2 + ref),
Triangles (3 + ref), Quadrilaterals (4 + ref), Tetrahedra (4 + ref), Hexahedra (8 + ref), Corners / RequiredVertices /
Ridges / RequiredEdges (1 integer); indices are 1-based; `End` closes the file.  Sections may come in any order."""
from .common import FormatError, LineWriter, fmt_float, to_float, to_int

ELEMENTS = {"Edges": 2, "Triangles": 3, "Quadrilaterals": 4, "Tetrahedra": 4, "Hexahedra": 8}
SINGLE = {"Corners", "RequiredVertices", "Ridges", "RequiredEdges", "RequiredTriangles", "RequiredQuadrilaterals"}


def read(path):
    with open(path, "r", newline="") as f:
        text = f.read()
    toks = []
    for raw in text.replace("\r\n", "\n").replace("\r", "\n").split("\n"):
        toks.extend(raw.split("#", 1)[0].split())
    pos = 0

    def nxt(what):
        nonlocal pos
        if pos >= len(toks):
            raise FormatError("unexpected end of file, %s expected" % what)
        pos += 1
        return toks[pos - 1]
    out = {"V": [], "E": [], "F": [], "C": [], "tri": [], "quad": [], "tet": [], "hex": [], "refs": {}, "order": []}
    dim = None
    seen_version = False
    while pos < len(toks):
        k = nxt("keyword")
        if k == "MeshVersionFormatted":
            to_int(nxt("version"))
            seen_version = True
        elif k == "Dimension":
            dim = to_int(nxt("dimension"))
            if dim not in (2, 3):
                raise FormatError("dimension %r" % dim)
        elif k == "End":
            break
        elif k == "Vertices":
            if dim is None:
                raise FormatError("Vertices before Dimension")
            n = to_int(nxt("count"))
            refs = []
            for _ in range(n):
                p = [to_float(nxt("coordinate")) for _ in range(dim)]
                refs.append(to_int(nxt("reference"), "vertex reference"))
                out["V"].append(tuple(p + [0.0] * (3 - dim)))
            out["refs"]["Vertices"] = refs
        elif k in ELEMENTS:
            n = to_int(nxt("count"))
            a = ELEMENTS[k]
            recs, refs = [], []
            for _ in range(n):
                ids = [to_int(nxt("index"), "%s index" % k) - 1 for _ in range(a)]
                refs.append(to_int(nxt("reference"), "%s reference" % k))
                recs.append(ids)
            out["refs"][k] = refs
            out["order"].append(k)
            if k == "Edges":
                out["E"] += [tuple(r) for r in recs]
            elif k == "Triangles":
                out["tri"] += recs
                out["F"] += recs
            elif k == "Quadrilaterals":
                out["quad"] += recs
                out["F"] += recs
            elif k == "Tetrahedra":
                out["tet"] += recs
                out["C"] += recs
            else:
                out["hex"] += recs
                out["C"] += recs
        elif k in SINGLE:
            n = to_int(nxt("count"))
            for _ in range(n):
                to_int(nxt("index"))
        else:
            raise FormatError("unknown keyword %r" % k[:30])
    if not seen_version:
        raise FormatError("MeshVersionFormatted missing")
    nv = len(out["V"])
    for kind in ("E", "F", "C"):
        for rec in out[kind]:
            for i in rec:
                if not 0 <= i < nv:
                    raise FormatError("vertex index out of range in %s" % kind)
    return out


def write(path, data, d):
    """dialect keys used: eol, float, comments, blank, trail_ws, indent, ref (reference field value; 'vary' = i % 7 - 2),
    order (0: V,E,Tri,Quad,Tet,Hex  1: V,Hex,Tet,Quad,Tri,E  2: V,Tri,E,Quad,Hex,Tet), extras (Corners/Ridges sections,
    `Dimension` and its value on two lines, version 2)."""
    w = LineWriter(d)
    V, E, F, C = data["V"], data.get("E", []), data.get("F", []), data.get("C", [])
    extras = d.get("extras")

    def ref(i):
        r = d.get("ref", 1)
        return (i % 7) - 2 if r == "vary" else r
    w.line("MeshVersionFormatted %d" % (2 if extras else 1))
    if extras:
        w.line("Dimension")
        w.line("3")
    else:
        w.line("Dimension 3")
    w.comment("written by the reference medit writer")
    w.blank()
    w.line("Vertices")
    w.line("%d" % len(V))
    for i, p in enumerate(V):
        w.line(" ".join(fmt_float(c, d["float"]) for c in p) + " %d" % ref(i))
    w.blank()

    def section(name, recs):
        if not recs:
            return
        w.comment(name)
        w.line(name)
        w.line("%d" % len(recs))
        for i, r in enumerate(recs):
            w.line(" ".join("%d" % (v + 1) for v in r) + " %d" % ref(i))
        w.blank()
    parts = {"E": ("Edges", [list(e) for e in E]), "Tri": ("Triangles", [f for f in F if len(f) == 3]),
             "Quad": ("Quadrilaterals", [f for f in F if len(f) == 4]), "Tet": ("Tetrahedra", [c for c in C if len(c) == 4]),
             "Hex": ("Hexahedra", [c for c in C if len(c) == 8])}
    orders = {0: ["E", "Tri", "Quad", "Tet", "Hex"], 1: ["Hex", "Tet", "Quad", "Tri", "E"], 2: ["Tri", "E", "Quad", "Hex", "Tet"]}
    seq = orders[d.get("order", 0) % 3]
    for j, key in enumerate(seq):
        section(*parts[key])
        if extras and j == 1 and V:
            w.line("Corners")
            w.line("1")
            w.line("1")
            w.blank()
    if extras and E:
        w.line("Ridges")
        w.line("1")
        w.line("1")
        w.blank()
    w.line("End")
    w.save(path)
