"""geogram ASCII GeoFile (.geogram_ascii).

Format description (geogram's geofile): a sequence of chunks, one token per line, '#' starts a comment that runs to the end
of the line (geogram itself annotates the header lines of each chunk this way).

  [HEAD]  "GEOGRAM"  "1.0"
  [ATTS]  "<attribute set name>"  <number of items>
  [ATTR]  "<attribute set name>"  "<attribute name>"  "<element type>"  <element size in bytes>  <elements per item>
          followed by exactly items*dimension values, one per line

Attribute sets of a mesh: GEO::Mesh::vertices, ::edges, ::facets, ::facet_corners, ::cells, ::cell_corners, ::cell_facets.
Mesh data: vertices/"point" (double, 3); edges/"GEO::Mesh::edges::edge_vertex" (index_t, 2);
facets/"GEO::Mesh::facets::facet_ptr" (index_t, 1; first corner of each facet; absent = all facets are triangles);
facet_corners/"GEO::Mesh::facet_corners::corner_vertex" (+ optional corner_adjacent_facet);
cells/"GEO::Mesh::cells::cell_type" (char; 0 tet, 1 hex) and "GEO::Mesh::cells::cell_ptr" (index_t; both absent = all cells
are tetrahedra); cell_corners/"GEO::Mesh::cell_corners::corner_vertex"; cell_facets/"GEO::Mesh::cell_facets::adjacent_cell".
Element types: double(8) float(4) int(4) index_t(4) signed_index_t(4) bool(1) char(1).  Everything else is a user attribute."""
from .common import FormatError, LineWriter, fmt_float, to_float, to_int

SETS = ["GEO::Mesh::vertices", "GEO::Mesh::edges", "GEO::Mesh::facets", "GEO::Mesh::facet_corners",
        "GEO::Mesh::cells", "GEO::Mesh::cell_corners", "GEO::Mesh::cell_facets"]
TYPES = {"double": 8, "float": 4, "int": 4, "index_t": 4, "signed_index_t": 4, "bool": 1, "char": 1}
NO_ID = 4294967295
CELL_TYPE = {4: 0, 8: 1}
CELL_NV = {0: 4, 1: 8, 2: 6, 3: 5}
CELL_NF = {4: 4, 8: 6}
INTERNAL = {"point", "GEO::Mesh::edges::edge_vertex", "GEO::Mesh::facets::facet_ptr", "GEO::Mesh::facet_corners::corner_vertex",
            "GEO::Mesh::facet_corners::corner_adjacent_facet", "GEO::Mesh::cells::cell_type", "GEO::Mesh::cells::cell_ptr",
            "GEO::Mesh::cell_corners::corner_vertex", "GEO::Mesh::cell_facets::adjacent_cell"}


def _unquote(tok, what):
    if len(tok) < 2 or tok[0] != '"' or tok[-1] != '"':
        raise FormatError("%s must be a quoted string, found %r" % (what, tok[:50]))
    return tok[1:-1]


def _value(tok, typ, where):
    try:
        if typ in ("double", "float"):
            return float(tok)
        v = int(tok)
    except ValueError:
        raise FormatError("%s value of %s expected, found %r" % (typ, where, tok[:40]),
                          code="value_is_not_a_number_in_" + (where.split("::")[-1] if "::" in where.split("/")[-1] else "user_attribute"))
    if typ == "bool":
        if v not in (0, 1):
            raise FormatError("bool value of %s is %d" % (where, v), code="bool_value_not_0_or_1")
        return bool(v)
    return v


def parse(path):
    """Chunk-level parse: returns (sizes {set: n}, attrs [(set, name, type, elemsize_token, dim, values)]).
    Values of attributes whose element type is not a geogram type are returned as raw strings (type kept verbatim)."""
    with open(path, "r", newline="") as f:
        text = f.read()
    toks = []
    for raw in text.replace("\r\n", "\n").replace("\r", "\n").split("\n"):
        s = raw.split("#", 1)[0].strip()
        toks.append(s)
    # text.split(newline) leaves one empty token after the final newline
    if toks and toks[-1] == "":
        toks.pop()
    pos = 0
    n = len(toks)

    def nxt(what):
        nonlocal pos
        if pos >= n:
            raise FormatError("unexpected end of file, %s expected" % what)
        pos += 1
        return toks[pos - 1]
    if nxt("[HEAD]") != "[HEAD]":
        raise FormatError("[HEAD] chunk missing")
    if _unquote(nxt("magic"), "magic") != "GEOGRAM":
        raise FormatError("magic string")
    _unquote(nxt("version"), "version")
    sizes, attrs = {}, []
    while pos < n:
        if all(t == "" for t in toks[pos:]):
            break  # blank lines are only tolerated at the very end of the file
        tag = nxt("chunk tag")
        if tag == "[ATTS]":
            name = _unquote(nxt("attribute set name"), "attribute set name")
            cnt = to_int(nxt("item count"), "item count of set %s" % name)
            if name in sizes:
                raise FormatError("attribute set %s declared twice" % name, code="attribute_set_declared_twice")
            sizes[name] = cnt
        elif tag == "[ATTR]":
            sname = _unquote(nxt("attribute set name"), "attribute set name")
            aname = _unquote(nxt("attribute name"), "attribute name")
            typ = _unquote(nxt("element type"), "element type")
            esize = nxt("element size")
            dim = to_int(nxt("dimension"), "dimension of attribute %s" % aname)
            if sname not in sizes:
                raise FormatError("attribute %s belongs to attribute set %s which is not declared ([ATTS]) before it" % (aname, sname),
                                  code="attribute_set_not_declared_" + sname.split("::")[-1])
            if typ in TYPES:
                if to_int(esize, "element size") != TYPES[typ]:
                    raise FormatError("element size %s for type %s" % (esize, typ), code="wrong_element_size_for_type")
            count = sizes[sname] * dim
            vals = []
            for k in range(count):
                if pos >= n and typ not in TYPES:
                    vals.append("")  # values of a non-geogram type are opaque text, possibly empty
                    continue
                if pos >= n:
                    raise FormatError("attribute %s of %s: %d values announced, file ends after %d" % (aname, sname, count, k),
                                      code="fewer_values_than_announced_in_" + (aname.split("::")[-1] if aname in INTERNAL or "::" in aname else "user_attribute"))
                t = toks[pos]
                # a chunk tag where a value is expected: for the numeric element types any bracketed token, for opaque (text) values only the
                # format's own three tags - a text value may itself be a bracketed word
                if t in ("[HEAD]", "[ATTS]", "[ATTR]") or (typ in TYPES and t.startswith("[")):
                    raise FormatError("attribute %s of %s: %d values announced, next chunk starts after %d" % (aname, sname, count, k),
                                      code="fewer_values_than_announced_in_" + (aname.split("::")[-1] if aname in INTERNAL or "::" in aname else "user_attribute"))
                pos += 1
                vals.append(_value(t, typ, "%s/%s" % (sname, aname)) if typ in TYPES else t)
            if pos < n and toks[pos] not in ("[HEAD]", "[ATTS]", "[ATTR]") and not (typ in TYPES and toks[pos].startswith("[")):
                raise FormatError("attribute %s of %s: more than the %d announced values" % (aname, sname, count),
                                  code="more_values_than_announced_in_" + (aname.split("::")[-1] if aname in INTERNAL or "::" in aname else "user_attribute"))
            attrs.append((sname, aname, typ, esize, dim, vals))
        else:
            raise FormatError("chunk tag expected, found %r" % tag[:40])
    return sizes, attrs


def read(path):
    sizes, attrs = parse(path)
    by = {}
    for (s, a, typ, esize, dim, vals) in attrs:
        if (s, a) in by:
            raise FormatError("attribute %s of %s defined twice" % (a, s), code="attribute_defined_twice")
        by[(s, a)] = (typ, dim, vals)
    out = {"V": [], "E": [], "F": [], "C": [], "attrs": {}, "sizes": sizes}
    nv = sizes.get("GEO::Mesh::vertices", 0)
    if nv:
        if ("GEO::Mesh::vertices", "point") not in by:
            raise FormatError("vertices without point attribute")
        typ, dim, vals = by[("GEO::Mesh::vertices", "point")]
        if typ != "double" or dim != 3:
            raise FormatError("point attribute must be double x 3")
        out["V"] = [tuple(vals[3 * i:3 * i + 3]) for i in range(nv)]

    def idx(v, bound, what):
        if not isinstance(v, int) or isinstance(v, bool) or not 0 <= v < bound:
            raise FormatError("%s out of range" % what)
        return v
    ne = sizes.get("GEO::Mesh::edges", 0)
    if ne:
        key = ("GEO::Mesh::edges", "GEO::Mesh::edges::edge_vertex")
        if key not in by or by[key][1] != 2:
            raise FormatError("edges without edge_vertex attribute")
        vals = by[key][2]
        out["E"] = [(idx(vals[2 * i], nv, "edge vertex"), idx(vals[2 * i + 1], nv, "edge vertex")) for i in range(ne)]
    nf = sizes.get("GEO::Mesh::facets", 0)
    if nf:
        nc = sizes.get("GEO::Mesh::facet_corners", 0)
        key = ("GEO::Mesh::facet_corners", "GEO::Mesh::facet_corners::corner_vertex")
        if key not in by or by[key][1] != 1:
            raise FormatError("facets without corner_vertex attribute")
        cv = by[key][2]
        pk = ("GEO::Mesh::facets", "GEO::Mesh::facets::facet_ptr")
        if pk in by:
            ptr = list(by[pk][2]) + [nc]
            if ptr[0] != 0 or any(ptr[i + 1] - ptr[i] < 3 for i in range(nf)):
                raise FormatError("facet_ptr is not an increasing sequence of corner offsets starting at 0")
        else:
            if nc != 3 * nf:
                raise FormatError("no facet_ptr attribute (all facets are triangles) but %d corners for %d facets" % (nc, nf),
                                  code="no_facet_ptr_but_facets_are_not_all_triangles")
            ptr = [3 * i for i in range(nf + 1)]
        out["F"] = [[idx(cv[k], nv, "facet corner vertex") for k in range(ptr[i], ptr[i + 1])] for i in range(nf)]
    ncell = sizes.get("GEO::Mesh::cells", 0)
    if ncell:
        ncc = sizes.get("GEO::Mesh::cell_corners", 0)
        key = ("GEO::Mesh::cell_corners", "GEO::Mesh::cell_corners::corner_vertex")
        if key not in by or by[key][1] != 1:
            raise FormatError("cells without corner_vertex attribute")
        cv = by[key][2]
        pk = ("GEO::Mesh::cells", "GEO::Mesh::cells::cell_ptr")
        tk = ("GEO::Mesh::cells", "GEO::Mesh::cells::cell_type")
        if pk in by:
            ptr = list(by[pk][2]) + [ncc]
            if ptr[0] != 0 or any(ptr[i + 1] - ptr[i] < 4 for i in range(ncell)):
                raise FormatError("cell_ptr is not an increasing sequence of corner offsets starting at 0")
            if tk in by:
                for i in range(ncell):
                    if CELL_NV.get(by[tk][2][i]) != ptr[i + 1] - ptr[i]:
                        raise FormatError("cell_type and cell_ptr disagree")
        else:
            if ncc != 4 * ncell:
                raise FormatError("no cell_ptr attribute (all cells are tetrahedra) but %d corners for %d cells" % (ncc, ncell),
                                  code="no_cell_ptr_but_cells_are_not_all_tetrahedra")
            ptr = [4 * i for i in range(ncell + 1)]
        out["C"] = [[idx(cv[k], nv, "cell corner vertex") for k in range(ptr[i], ptr[i + 1])] for i in range(ncell)]
    for (s, a), (typ, dim, vals) in by.items():
        if a in INTERNAL:
            continue
        nitems = sizes[s]
        out["attrs"][(s, a)] = {"type": typ, "dim": dim,
                                "values": [vals[dim * i] if dim == 1 else list(vals[dim * i:dim * i + dim]) for i in range(nitems)]}
    return out


def write(path, data, d):
    """data: V, E, F, C, attrs {(set, name): {"type", "dim", "values" (per item; scalar or list)}}.
    dialect keys used: eol, float, comments (geogram's own annotations after the header tokens), data_comments ('#' comments after
    two thirds of the data values of every numeric chunk: coordinates, ptr attributes, corner vertices, user attributes), trail_ws,
    order (0: vertices, edges, facets, cells; 1: vertices, facets, cells, edges),
    extras: 'native' = what geogram writes (facet_ptr unless all triangles, corner_adjacent_facet, cell_type + cell_ptr unless
    all tetrahedra, cell_facets/adjacent_cell); 'ptr' = facet_ptr / cell_ptr always, no cell_type, no adjacency;
    'min' = ptr attributes only when needed, no cell_type, no adjacency."""
    w = LineWriter(d, comment_prefix=None)
    ann = d.get("comments")
    mode = d.get("extras") or "min"
    V, E, F, C = data["V"], data.get("E", []), data.get("F", []), data.get("C", [])
    attrs = data.get("attrs", {})

    def tok(s, note):
        w.line(s + (" # " + note if ann else ""))

    def atts(name, n):
        w.line("[ATTS]")
        tok('"%s"' % name, "this is the name of this attribute set")
        tok("%d" % n, "this is the number of items in this attribute set")

    def attr(sname, aname, typ, dim, flat):
        w.line("[ATTR]")
        tok('"%s"' % sname, "this is the name of the attribute set this attribute belongs to")
        tok('"%s"' % aname, "this is the name of this attribute")
        tok('"%s"' % typ, "this is the type of the elements in this attribute")
        tok("%d" % TYPES[typ], "this is the size of an element (in bytes)")
        tok("%d" % dim, "this is the number of elements per item")
        dc = d.get("data_comments")  # None | "blank" (value, blanks, '#') | "tight" ('#' directly after the value)
        for k, v in enumerate(flat):
            txt = fmt_float(v, d["float"]) if typ in ("double", "float") else "%d" % int(v)
            if dc and k % 3 != 2:
                txt += ("  # " if dc == "blank" else "#") + "%s[%d]" % (aname.split("::")[-1], k)
            w.line(txt)

    def user(sname):
        for (s, a), spec in attrs.items():
            if s != sname:
                continue
            flat = []
            for v in spec["values"]:
                flat.extend(v if spec["dim"] > 1 else [v])
            attr(s, a, spec["type"], spec["dim"], flat)
    w.line("[HEAD]")
    w.line('"GEOGRAM"')
    w.line('"1.0"')
    atts("GEO::Mesh::vertices", len(V))
    attr("GEO::Mesh::vertices", "point", "double", 3, [c for p in V for c in p])
    user("GEO::Mesh::vertices")

    def edges():
        if not E:
            return
        atts("GEO::Mesh::edges", len(E))
        attr("GEO::Mesh::edges", "GEO::Mesh::edges::edge_vertex", "index_t", 2, [v for e in E for v in e])
        user("GEO::Mesh::edges")

    def facets():
        if not F:
            return
        atts("GEO::Mesh::facets", len(F))
        simplicial = all(len(f) == 3 for f in F)
        if mode == "ptr" or not simplicial:
            ptr, p = [], 0
            for f in F:
                ptr.append(p)
                p += len(f)
            attr("GEO::Mesh::facets", "GEO::Mesh::facets::facet_ptr", "index_t", 1, ptr)
        user("GEO::Mesh::facets")
        nc = sum(len(f) for f in F)
        atts("GEO::Mesh::facet_corners", nc)
        attr("GEO::Mesh::facet_corners", "GEO::Mesh::facet_corners::corner_vertex", "index_t", 1, [v for f in F for v in f])
        if mode == "native":
            attr("GEO::Mesh::facet_corners", "GEO::Mesh::facet_corners::corner_adjacent_facet", "index_t", 1, [NO_ID] * nc)
        user("GEO::Mesh::facet_corners")

    def cells():
        if not C:
            return
        atts("GEO::Mesh::cells", len(C))
        simplicial = all(len(c) == 4 for c in C)
        if mode == "native" and not simplicial:
            attr("GEO::Mesh::cells", "GEO::Mesh::cells::cell_type", "char", 1, [CELL_TYPE[len(c)] for c in C])
        if mode == "ptr" or not simplicial:
            ptr, p = [], 0
            for c in C:
                ptr.append(p)
                p += len(c)
            attr("GEO::Mesh::cells", "GEO::Mesh::cells::cell_ptr", "index_t", 1, ptr)
        user("GEO::Mesh::cells")
        ncc = sum(len(c) for c in C)
        atts("GEO::Mesh::cell_corners", ncc)
        attr("GEO::Mesh::cell_corners", "GEO::Mesh::cell_corners::corner_vertex", "index_t", 1, [v for c in C for v in c])
        user("GEO::Mesh::cell_corners")
        ncf = sum(CELL_NF[len(c)] for c in C)
        has_user = any(s == "GEO::Mesh::cell_facets" for (s, a) in attrs)
        if mode == "native" or has_user:
            atts("GEO::Mesh::cell_facets", ncf)
            if mode == "native":
                attr("GEO::Mesh::cell_facets", "GEO::Mesh::cell_facets::adjacent_cell", "index_t", 1, [NO_ID] * ncf)
            user("GEO::Mesh::cell_facets")
    seq = [edges, facets, cells] if d.get("order", 0) == 0 else [facets, cells, edges]
    for fn in seq:
        fn()
    w.save(path)
