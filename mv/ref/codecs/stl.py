"""STL, binary and ASCII.

Binary: 80-byte header, uint32 little-endian triangle count n, n records of 12 float32 (normal, 3 vertices) + uint16
attribute byte count; the file is exactly 84 + 50 n bytes.  ASCII: `solid [name]`, then per triangle
`facet normal nx ny nz / outer loop / vertex x y z (x3) / endloop / endfacet`, closed by `endsolid [name]`.
The result is a triangle soup: T = [((x,y,z),(x,y,z),(x,y,z)), ...] (float32 values for binary files)."""
import struct

from .common import FormatError, LineWriter, fmt_float, to_float


def read(path):
    with open(path, "rb") as f:
        raw = f.read()
    if len(raw) >= 84:
        n = struct.unpack("<I", raw[80:84])[0]
        if len(raw) == 84 + 50 * n:
            T, normals, attrs = [], [], []
            for i in range(n):
                rec = struct.unpack("<12fH", raw[84 + 50 * i: 134 + 50 * i])
                normals.append(rec[0:3])
                T.append((rec[3:6], rec[6:9], rec[9:12]))
                attrs.append(rec[12])
            return {"T": T, "normals": normals, "attr": attrs, "binary": True, "header": raw[:80]}
    try:
        text = raw.decode("ascii")
    except UnicodeDecodeError:
        raise FormatError("neither a well-sized binary STL nor ASCII text")
    toks = text.split()
    if not toks or toks[0] != "solid":
        raise FormatError("neither a well-sized binary STL nor an ASCII STL")
    lines = [s.split() for s in text.replace("\r\n", "\n").replace("\r", "\n").split("\n")]
    lines = [t for t in lines if t]  # white space (blanks, newlines) may be used anywhere between words
    T, normals, solids = [], [], []
    i = 0
    while i < len(lines):
        if lines[i][0] != "solid":
            raise FormatError("solid expected")
        name = " ".join(lines[i][1:])
        i += 1
        count = 0
        while True:
            if i >= len(lines):
                raise FormatError("endsolid missing")
            t = lines[i]
            if t[0] == "endsolid":
                i += 1
                break
            if t[:2] != ["facet", "normal"] or len(t) != 5:
                raise FormatError("facet normal expected")
            if i + 6 >= len(lines):
                raise FormatError("truncated facet")
            normals.append(tuple(to_float(x) for x in t[2:5]))
            if lines[i + 1] != ["outer", "loop"]:
                raise FormatError("outer loop expected")
            tri = []
            for k in range(3):
                v = lines[i + 2 + k]
                if v[0] != "vertex" or len(v) != 4:
                    raise FormatError("vertex expected")
                tri.append(tuple(to_float(x) for x in v[1:4]))
            if lines[i + 5] != ["endloop"] or lines[i + 6] != ["endfacet"]:
                raise FormatError("endloop/endfacet expected")
            T.append(tuple(tri))
            count += 1
            i += 7
        solids.append((name, count))
    return {"T": T, "normals": normals, "binary": False, "solids": solids}


def split_solids(n, k, empty_between=False, rng=None):
    """Facet counts of k solids holding n facets in all (different counts where possible), optionally with an empty solid in between."""
    k = max(1, min(k, n)) if n else 1
    cuts = sorted(rng.sample(range(1, n), k - 1)) if (rng is not None and k > 1) else [n * j // k for j in range(1, k)]
    sizes = [b - a for a, b in zip([0] + cuts, cuts + [n])]
    if empty_between and len(sizes) >= 2:
        sizes.insert(1, 0)
    return sizes


def write(path, data, d):
    """data["T"]: triangle soup.  dialect keys used: order (0: binary, 1: ASCII), eol/float/indent/trail_ws (ASCII),
    extras (binary: non-zero normals, other header text; ASCII: real normals)."""
    T = data["T"]
    extras = d.get("extras")
    if d.get("order", 0) == 0:
        head = (b"reference STL writer - binary" if extras else b"").ljust(80, b" " if extras else b"\0")
        with open(path, "wb") as f:
            f.write(head)
            f.write(struct.pack("<I", len(T)))
            for i, tri in enumerate(T):
                nrm = (0.0, 0.0, 1.0) if extras else (0.0, 0.0, 0.0)
                flat = list(nrm) + [c for p in tri for c in p]
                f.write(struct.pack("<12fH", *(flat + [0])))
        return
    # ASCII.  further dialect keys: solids (list of facet counts, one `solid ... endsolid` block each; tools that export one block
    # per part / patch write such files), names ("named" | "unnamed" | "mixed"), endname (repeat the name after endsolid),
    # blank (blank lines between facets and between solids)
    w = LineWriter(d, comment_prefix=None)
    sizes = d.get("solids") or [len(T)]
    assert sum(sizes) == len(T)
    names_mode = d.get("names", "named" if extras else "unnamed")
    pos = 0
    for j, n in enumerate(sizes):
        named = names_mode == "named" or (names_mode == "mixed" and j % 2 == 0)
        name = (" part_%d" % (j + 1) if j % 3 else " part %d of the model" % (j + 1)) if named else ""
        w.lines.append("solid" + name)
        for tri in T[pos:pos + n]:
            nrm = (0.0, 0.0, 1.0) if extras else (0.0, 0.0, 0.0)
            w.line("facet normal " + " ".join(fmt_float(c, d["float"]) for c in nrm))
            w.line("  outer loop")
            for p in tri:
                w.line("    vertex " + " ".join(fmt_float(c, d["float"]) for c in p))
            w.line("  endloop")
            w.line("endfacet")
            w.blank()
        pos += n
        w.lines.append("endsolid" + (name if d.get("endname", True) else ""))
        w.blank()
    w.save(path)
