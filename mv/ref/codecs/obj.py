"""Wavefront OBJ, the polygonal subset: v / vt / vn / f / l plus ignored grouping and material statements.

Format description: one statement per line, '#' starts a comment, tokens separated by blanks; `v x y z [w]`;
`f` and `l` reference vertices 1-based as v, v/vt, v//vn or v/vt/vn (negative = relative to the current vertex count);
an `l` statement with k >= 2 references is a polyline (k-1 segments)."""
from .common import FormatError, LineWriter, fmt_float, to_float, to_int

IGNORED = {"o", "g", "s", "usemtl", "mtllib", "vp"}


def _ref(tok, nv):
    parts = tok.split("/")
    if not 1 <= len(parts) <= 3:
        raise FormatError("bad vertex reference %r" % tok[:30])
    i = to_int(parts[0], "vertex index")
    for p in parts[1:]:
        if p != "":
            to_int(p, "texture/normal index")
    if i > 0:
        return i - 1
    if i < 0:
        return nv + i
    raise FormatError("vertex index 0")


def read(path):
    V, E, F, VN, VT = [], [], [], [], []
    pending = []
    with open(path, "r", newline="") as f:
        text = f.read()
    for raw in text.replace("\r\n", "\n").replace("\r", "\n").split("\n"):
        line = raw.split("#", 1)[0].strip()
        if not line:
            continue
        toks = line.split()
        k = toks[0]
        if k == "v":
            if len(toks) < 4:
                raise FormatError("v needs 3 coordinates")
            V.append(tuple(to_float(t) for t in toks[1:4]))
        elif k == "vn":
            VN.append(tuple(to_float(t) for t in toks[1:4]))
        elif k == "vt":
            VT.append(tuple(to_float(t) for t in toks[1:]))
        elif k == "f":
            if len(toks) < 4:
                raise FormatError("f needs at least 3 vertices")
            pending.append(("f", toks[1:], len(V)))
        elif k == "l":
            if len(toks) < 3:
                raise FormatError("l needs at least 2 vertices")
            pending.append(("l", toks[1:], len(V)))
        elif k in IGNORED:
            continue
        else:
            raise FormatError("unknown statement %r" % k[:20])
    for kind, refs, nv in pending:
        ids = [_ref(t, nv) for t in refs]
        for i in ids:
            if not 0 <= i < len(V):
                raise FormatError("vertex reference out of range")
        if kind == "f":
            F.append(ids)
        else:
            for a, b in zip(ids[:-1], ids[1:]):
                E.append((a, b))
    return {"V": V, "E": E, "F": F, "C": [], "VN": VN, "VT": VT}


def write(path, data, d):
    """dialect keys used: eol, float, comments, blank, trail_ws, indent, order (0: v,l,f  1: v,f,l  2: polyline `l` statements),
    extras (object/group/material statements, vn + `f v//vn` references, 4th vertex coordinate)."""
    w = LineWriter(d)
    V, E, F = data["V"], data.get("E", []), data.get("F", [])
    extras = d.get("extras")
    w.comment("written by the reference OBJ writer")
    if extras:
        w.line("mtllib none.mtl")
        w.line("o thing")
    w.blank()
    for i, p in enumerate(V):
        s = "v " + " ".join(fmt_float(c, d["float"]) for c in p)
        if extras and i % 2 == 0:
            s += " 1.0"
        w.line(s)
    if extras:
        for p in V:
            w.line("vn 0.0 0.0 1.0")
        w.line("g part")
        w.line("usemtl none")
        w.line("s off")
    w.blank()

    def faces():
        w.comment("%d faces" % len(F))
        for f in F:
            if extras:
                w.line("f " + " ".join("%d//%d" % (v + 1, v + 1) for v in f))
            else:
                w.line("f " + " ".join("%d" % (v + 1) for v in f))
        w.blank()

    def lines():
        w.comment("%d segments" % len(E))
        if d.get("order") == 2:
            # maximal chains of consecutive segments written as polyline statements
            i = 0
            while i < len(E):
                chain = [E[i][0], E[i][1]]
                j = i + 1
                while j < len(E) and E[j][0] == chain[-1]:
                    chain.append(E[j][1])
                    j += 1
                w.line("l " + " ".join("%d" % (v + 1) for v in chain))
                i = j
        else:
            for a, b in E:
                w.line("l %d %d" % (a + 1, b + 1))
        w.blank()
    if d.get("order") == 1:
        faces()
        lines()
    else:
        lines()
        faces()
    w.save(path)
