"""Independent reference codecs for the mesh file formats mouette reads and writes (C04).

Written from the format descriptions; nothing here imports mouette.  Every module offers

    read(path)  -> dict(V=[(x,y,z)], E=[(a,b)], F=[[..]], C=[[..]], ...)      strict: raises FormatError on a malformed file
    write(path, data, dialect) -> None                                          several writer dialects (see common.DIALECT_KEYS)

Indices are 0-based in the returned / accepted data whatever the file convention is."""
from . import common, obj, medit, geogram, off, tet, xyz, stl  # noqa

BY_EXT = {"obj": obj, "mesh": medit, "geogram_ascii": geogram, "off": off, "tet": tet, "xyz": xyz, "stl": stl}
