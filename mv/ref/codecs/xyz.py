""".xyz point clouds: one point per line `x y z [nx ny nz]`; an optional first line holding only the number of points."""
from .common import FormatError, LineWriter, fmt_float, to_float, to_int


def read(path):
    with open(path, "r", newline="") as f:
        text = f.read()
    V, N = [], []
    announced = None
    rows = [s.split() for s in text.replace("\r\n", "\n").replace("\r", "\n").split("\n")]
    rows = [r for r in rows if r]
    for k, t in enumerate(rows):
        if len(t) == 1 and k == 0:
            announced = to_int(t[0], "point count")
            continue
        if len(t) < 3:
            raise FormatError("point line with fewer than 3 numbers")
        V.append(tuple(to_float(x) for x in t[:3]))
        if len(t) >= 6:
            N.append(tuple(to_float(x) for x in t[3:6]))
    if announced is not None and announced != len(V):
        raise FormatError("announced %d points, found %d" % (announced, len(V)))
    return {"V": V, "E": [], "F": [], "C": [], "N": N if len(N) == len(V) else []}


def write(path, data, d):
    """dialect keys used: eol, float, trail_ws, indent, order (1: leading count line, 2: tab separated), extras (normals)."""
    w = LineWriter(d, comment_prefix=None)
    V = data["V"]
    if d.get("order") == 1:
        w.line("%d" % len(V))
    sep = "\t" if d.get("order") == 2 else " "
    for i, p in enumerate(V):
        s = sep.join(fmt_float(c, d["float"]) for c in p)
        if d.get("extras"):
            n = data.get("N", [(0.0, 0.0, 1.0)] * len(V))[i]
            s += sep + sep.join(fmt_float(c, d["float"]) for c in n)
        w.line(s)
    w.save(path)
