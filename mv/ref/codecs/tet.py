""".tet volume format (Graphite / geogram).

Format description: line `<nv> vertices`, line `<nc> tets` (or `cells`), nv lines `x y z`, nc lines `k i0 .. i(k-1)` with
k = 4 (tetrahedron) or 8 (hexahedron), 0-based indices."""
from .common import FormatError, LineWriter, fmt_float, to_float, to_int


def read(path):
    with open(path, "r", newline="") as f:
        text = f.read()
    lines = [s.split() for s in text.replace("\r\n", "\n").replace("\r", "\n").split("\n")]
    while lines and not lines[-1]:
        lines.pop()
    if len(lines) < 2 or len(lines[0]) < 2 or len(lines[1]) < 2:
        raise FormatError("header lines missing")
    if lines[0][1] != "vertices" or lines[1][1] not in ("tets", "cells"):
        raise FormatError("header keywords")
    nv, nc = to_int(lines[0][0]), to_int(lines[1][0])
    body = lines[2:]
    if len(body) != nv + nc:
        raise FormatError("announced %d+%d data lines, found %d" % (nv, nc, len(body)))
    V = []
    for t in body[:nv]:
        if len(t) != 3:
            raise FormatError("vertex line needs 3 coordinates")
        V.append(tuple(to_float(x) for x in t))
    C = []
    for t in body[nv:]:
        if not t:
            raise FormatError("empty cell line")
        k = to_int(t[0], "cell size")
        if len(t) != k + 1:
            raise FormatError("cell line length does not match its announced size")
        ids = [to_int(x) for x in t[1:]]
        for i in ids:
            if not 0 <= i < nv:
                raise FormatError("vertex index out of range")
        C.append(ids)
    return {"V": V, "E": [], "F": [], "C": C}


def write(path, data, d):
    """dialect keys used: eol, float, trail_ws, order (1: keyword `cells` is kept as `tets` but counts are padded with blanks)."""
    w = LineWriter(d, comment_prefix=None)
    V, C = data["V"], data.get("C", [])
    w.line("%d vertices" % len(V))
    w.line("%d tets" % len(C))
    for p in V:
        w.line(" ".join(fmt_float(c, d["float"]) for c in p))
    for c in C:
        sep = "  " if d.get("order") == 1 else " "
        w.line(("%d" % len(c)) + sep + sep.join("%d" % v for v in c))
    w.save(path)
