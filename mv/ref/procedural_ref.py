"""Reference facts about the procedural generators (C14), written from the docstrings / shape names alone.

No mouette import.  Everything here works on plain data: `V` float array (n,3), `F` list of index lists,
`p` the parameter dict of a call."""
import math

import numpy as np

from . import topo

# ----------------------------------------------------------------------------- topology of the named shape
#              closed, components, border loops, chi
SHAPES = {
    "sphere": (True, 1, 0, 2),
    "torus": (True, 1, 0, 0),
    "disk": (False, 1, 1, 1),
    "annulus": (False, 1, 2, 0),
}


def shape_of(a):
    """Name of the topological class of an analysed (valid, oriented, manifold) surface, or a descriptive string."""
    for name, (closed, nc, nl, chi) in SHAPES.items():
        if a["closed"] == closed and a["n_components"] == nc and len(a["border_loops"]) == nl and a["chi"] == chi \
                and a.get("border_ok", True):
            return name
    return "components=%d,border_loops=%d,chi=%d" % (a["n_components"], len(a["border_loops"]), a["chi"])


def split_components(F, face_component):
    """Faces grouped by component, vertices relabelled 0..k-1 inside each component.  -> list of (nV, faces, old_ids)."""
    groups = {}
    for f, c in zip(F, face_component):
        groups.setdefault(c, []).append(f)
    out = []
    for c in sorted(groups):
        fs = groups[c]
        ids = sorted({v for f in fs for v in f})
        new = {v: i for i, v in enumerate(ids)}
        out.append((len(ids), [[new[v] for v in f] for f in fs], ids))
    return out


# ----------------------------------------------------------------------------- documented element counts
def tri(n):
    return n * (n + 1) // 2


def counts(gen, p):
    """Documented vertex/face/edge/cell counts as functions of the parameters (None = not documented)."""
    c = {"V": None, "F": None, "E": None}
    if gen == "tetrahedron":
        c.update(V=4, F=4)
    elif gen in ("hexahedron", "axis_aligned_cube", "hexahedron_4pts"):
        c.update(V=8, F=12 if p.get("triangulate") else 6)
    elif gen == "octahedron":
        c.update(V=6, F=8)
    elif gen == "icosahedron":
        c.update(V=12, F=20)
    elif gen == "dodecahedron":
        c.update(V=20, F=12)
    elif gen == "cylinder":
        n = p["N"]
        c.update(V=2 * n + (2 if p["fill_caps"] else 0))
    elif gen == "torus":
        a, b = p["major_segments"], p["minor_segments"]
        c.update(V=a * b, F=a * b * (2 if p["triangulate"] else 1))
    elif gen == "sphere_uv":
        c.update(V=p["n_lat"] * p["n_long"] + 2)
    elif gen == "icosphere":
        k = 4 ** p["n_refine"]
        c.update(V=10 * k + 2, F=20 * k)
    elif gen == "sphere_fibonacci":
        c.update(V=p["n_pts"])
        if p["build_surface"]:
            c.update(F=2 * p["n_pts"] - 4)  # closed triangulated sphere
        else:
            c.update(F=0)
    elif gen == "ring":
        n = p["N"] * p["n_cover"]
        c.update(V=n + 1 + (1 if p["open"] else 0), F=n)
    elif gen == "flat_ring":
        n = p["N"] * p["n_cover"]
        c.update(V=n + 2, F=n)
    elif gen == "triangle":
        c.update(V=3, F=1)
    elif gen == "quad":
        c.update(V=4, F=2 if p["triangulate"] else 1)
    elif gen == "unit_grid":
        a, b = p["nu"], p["nv"]
        c.update(V=a * b, F=(a - 1) * (b - 1) * (2 if p["triangulate"] else 1))
    elif gen == "unit_triangle":
        if p["nu"] == p["nv"]:
            n = p["nu"]
            c.update(V=tri(n), F=(n - 1) ** 2)
    return c


# ----------------------------------------------------------------------------- geometry helpers
def dist_to_point(V, c):
    return np.linalg.norm(np.asarray(V, float) - np.asarray(c, float)[None, :], axis=1)


def line_coords(V, A, B):
    """For each point: (t, rho): axial coordinate along AB (0 at A, 1 at B) and distance to the line AB."""
    V = np.asarray(V, float)
    A = np.asarray(A, float)
    B = np.asarray(B, float)
    d = B - A
    L2 = float(d @ d)
    t = (V - A[None, :]) @ d / L2
    foot = A[None, :] + t[:, None] * d[None, :]
    rho = np.linalg.norm(V - foot, axis=1)
    return t, rho


def corner_angle(a, b, c):
    """Angle at a in triangle (a,b,c), by atan2 (accurate for small and near-flat angles)."""
    u = np.asarray(b, float) - np.asarray(a, float)
    w = np.asarray(c, float) - np.asarray(a, float)
    cr = np.linalg.norm(np.cross(u, w))
    return math.atan2(cr, float(u @ w))


def apex_of_fan(nV, F):
    """The unique vertex contained in every face, or None."""
    if not F:
        return None
    common = set(F[0])
    for f in F[1:]:
        common &= set(f)
    return next(iter(common)) if len(common) == 1 else None


def angle_sum_at(V, F, v):
    s = 0.0
    for f in F:
        if v in f:
            k = f.index(v)
            n = len(f)
            s += corner_angle(V[v], V[f[(k + 1) % n]], V[f[(k - 1) % n]])
    return s


def edge_lengths(V, F):
    V = np.asarray(V, float)
    return np.array([np.linalg.norm(V[u] - V[v]) for (u, v) in sorted(topo.edges_of(F))])


def vertex_degrees(nV, F):
    deg = [0] * nV
    for (u, v) in topo.edges_of(F):
        deg[u] += 1
        deg[v] += 1
    return deg


def n_clusters(values, tol):
    """Number of groups of values separated by gaps larger than tol."""
    x = np.sort(np.asarray(values, float).ravel())
    if x.size == 0:
        return 0
    return int(1 + np.sum(np.diff(x) > tol))


def has_point(V, c, tol):
    V = np.asarray(V, float)
    c = np.asarray(c, float)
    return bool(np.any(np.all(np.abs(V - c[None, :]) <= tol, axis=1)))


def match_point_sets(A, B, tol):
    """True when the two point lists are equal as multisets up to tol (greedy nearest matching, small inputs)."""
    A = [np.asarray(a, float) for a in A]
    B = [np.asarray(b, float) for b in B]
    if len(A) != len(B):
        return False
    left = list(range(len(B)))
    for a in A:
        best, bd = None, None
        for j in left:
            d = float(np.linalg.norm(a - B[j]))
            if bd is None or d < bd:
                best, bd = j, d
        if best is None or bd > tol:
            return False
        left.remove(best)
    return True


# ----------------------------------------------------------------------------- hexahedron / tetrahedron cells
# numbering of the hexahedron docstring: 0-1-2-3 bottom loop, 4-5-6-7 top loop, i+4 above i
HEX_SIDES = [(0, 1, 2, 3), (4, 5, 6, 7), (0, 1, 5, 4), (1, 2, 6, 5), (2, 3, 7, 6), (3, 0, 4, 7)]


def cell_faces(c):
    """Faces (vertex tuples) of a tet or hex cell; hex in the docstring's numbering."""
    if len(c) == 4:
        a, b, cc, d = c
        return [(b, cc, d), (a, cc, d), (a, b, d), (a, b, cc)]
    if len(c) == 8:
        return [tuple(c[i] for i in s) for s in HEX_SIDES]
    return None


def volume_report(nV, cells, faces, sides):
    """Judges a volume mesh that is supposed to fill the polyhedron whose boundary sides are `sides`
    (list of vertex-id tuples, triangles or planar quads).  Returns list of (mech, what, witness)."""
    bad = []
    if len(cells) == 0:
        return [("no_cell", "volume mesh has no cell", {})]
    for c in cells:
        if len(c) not in (4, 8) or len(set(c)) != len(c) or not all(0 <= v < nV for v in c):
            return [("invalid_cell", "cell is not a tetrahedron/hexahedron on distinct valid vertices", {"cell": c})]
    if len({tuple(sorted(c)) for c in cells}) != len(cells):
        bad.append(("repeated_cell", "a cell appears twice", {"cells": cells}))
    used = {v for c in cells for v in c}
    if used != set(range(nV)):
        bad.append(("cells_do_not_use_all_vertices", "some vertex belongs to no cell", {"unused": sorted(set(range(nV)) - used)}))
    cnt = {}
    for c in cells:
        for f in cell_faces(c):
            k = frozenset(f)
            if len(k) != len(f):
                return [("invalid_cell", "degenerate cell face", {"cell": c})]
            cnt[k] = cnt.get(k, 0) + 1
    if any(n > 2 for n in cnt.values()):
        bad.append(("face_shared_by_more_than_two_cells", "a face is shared by more than two cells", {"cells": cells}))
    boundary = [k for k, n in cnt.items() if n == 1]
    side_sets = [frozenset(s) for s in sides]
    cover = [0] * len(sides)
    for k in boundary:
        hit = [i for i, s in enumerate(side_sets) if k <= s]
        if not hit:
            bad.append(("cell_boundary_is_not_the_solid_boundary", "a boundary face of the cells does not lie in a side of the solid",
                        {"face": sorted(k), "sides": sides}))
            break
        cover[hit[0]] += (len(sides[hit[0]]) - 2) if len(k) == len(sides[hit[0]]) else 1
    else:
        want = [len(s) - 2 for s in sides]
        if cover != want:
            bad.append(("cell_boundary_is_not_the_solid_boundary", "the sides of the solid are not covered exactly once by the cells' boundary",
                        {"covered_triangles": cover, "wanted": want}))
    # face list of the volume mesh: valid, no repeats, contains the boundary, only faces of cells
    fk = []
    for f in faces:
        if not all(0 <= v < nV for v in f) or len(set(f)) != len(f):
            return bad + [("invalid_face_in_volume", "face list of the volume has an invalid face", {"face": f})]
        fk.append(frozenset(f))
    if len(set(fk)) != len(fk):
        bad.append(("repeated_face_in_volume", "face list of the volume repeats a face", {"faces": faces}))
    if not set(boundary) <= set(fk):
        bad.append(("boundary_face_missing_from_face_list", "a boundary face of the cells is absent from the face list", {"faces": faces}))
    if not set(fk) <= set(cnt):
        bad.append(("face_list_has_non_cell_face", "face list contains a face that belongs to no cell", {"faces": faces}))
    return bad


# ----------------------------------------------------------------------------- reference dual
def dual_faces(nV, F):
    """For each vertex of a closed oriented manifold: the cyclic list of incident faces (following the orientation).
    Returns None when some vertex fan is not a single closed cycle."""
    nxt = {}
    for fi, f in enumerate(F):
        n = len(f)
        for k in range(n):
            nxt[(f[k], f[(k + 1) % n])] = fi
    out = []
    for v in range(nV):
        inc = [fi for fi, f in enumerate(F) if v in f]
        if not inc:
            return None
        ring = []
        fi = inc[0]
        for _ in range(len(inc) + 1):
            ring.append(fi)
            f = F[fi]
            k = f.index(v)
            prev = f[(k - 1) % len(f)]
            # face on the other side of edge (prev, v): contains directed edge (v, prev)
            fj = nxt.get((v, prev))
            if fj is None:
                return None
            if fj == inc[0]:
                break
            fi = fj
        else:
            return None
        if sorted(ring) != sorted(inc):
            return None
        out.append(ring)
    return out


def same_cycle(a, b):
    """Equal as cyclic sequences up to rotation and reflection."""
    a, b = list(a), list(b)
    if len(a) != len(b) or sorted(a) != sorted(b):
        return False
    n = len(a)
    if n == 0:
        return True
    for bb in (b, b[::-1]):
        for s in range(n):
            if all(a[i] == bb[(i + s) % n] for i in range(n)):
                return True
    return False
