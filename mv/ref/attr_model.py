"""Reference model for C05: an attribute is a total map index -> value with a default.

Independent of mouette (never imports it).  Contains

  * the type lattice of the property statement (bool -> int -> float widening only; complex and str closed),
  * value normalisation and a type-insensitive, NaN-aware equality,
  * the sequential dict model (`AttrModel`): model[i] = last value written, else the default; length = container length,
  * generators of scalar / vector source values (python and numpy scalars, hostile floats, unicode strings <= 32 chars),
  * the expected verdict (accept / reject / not judged) of a write, from the statement alone.

Values are handled as *component lists*: an arity-k value is a list of k python/numpy scalars.
"""
import math

import numpy as np

CATS = ("bool", "int", "float", "complex", "str")
INT_BOUND = 2 ** 53          # integers stay inside the range where int -> float widening is exact
STR_LIMIT = 32               # stated capacity of the dense string storage (DESIGN section 8, row 42)

_EXACT = {
    bool: "bool", np.bool_: "bool",
    int: "int", np.uint8: "int", np.int32: "int", np.int64: "int",
    float: "float", np.float32: "float", np.float64: "float",
    complex: "complex",
    str: "str",
}


def category(x):
    """Category of a scalar by its exact type, or None for a type outside the five value types."""
    return _EXACT.get(type(x), None)


def castable(src, tgt):
    """The statement's lattice: identical types, or bool->int, bool->float, int->float."""
    if src == tgt:
        return True
    return (src, tgt) in (("bool", "int"), ("bool", "float"), ("int", "float"))


def type_default(cat):
    return {"bool": False, "int": 0, "float": 0.0, "complex": complex(0.0, 0.0), "str": ""}[cat]


# ----------------------------------------------------------------------------- normalisation / equality
def flat(x):
    """Answer of a read -> list of python scalars, or None when it is not a scalar / 1-d sequence of scalars."""
    try:
        if isinstance(x, np.ndarray):
            if x.ndim == 0:
                return [x.item()]
            if x.ndim != 1:
                return None
            return x.tolist()
        if isinstance(x, np.generic):
            return [x.item()]
        if isinstance(x, (bool, int, float, complex, str)):
            return [x]
        if isinstance(x, (list, tuple)):
            out = []
            for e in x:
                f = flat(e)
                if f is None or len(f) != 1:
                    return None
                out.append(f[0])
            return out
    except Exception:
        return None
    return None


def _same_real(a, b):
    if a != a and b != b:
        return True
    return a == b


def same_scalar(a, b):
    """Type-insensitive, NaN-aware equality of two python scalars (True == 1 == 1.0; 'a' only equals 'a')."""
    sa, sb = isinstance(a, str), isinstance(b, str)
    if sa or sb:
        return sa and sb and a == b
    try:
        ca, cb = complex(a), complex(b)
    except Exception:
        return False
    return _same_real(ca.real, cb.real) and _same_real(ca.imag, cb.imag)


def same(got, want_comps):
    """`got` (anything a read returned) equals the component list `want_comps`, with exactly the same arity."""
    g = flat(got)
    w = flat(list(want_comps))
    if g is None or w is None or len(g) != len(w):
        return False
    return all(same_scalar(x, y) for x, y in zip(g, w))


def same_comps(a, b):
    return same(list(a), list(b))


def show(x):
    """Small printable form of a value for witnesses / samples."""
    f = flat(x)
    if f is None:
        return repr(x)[:80]
    if isinstance(x, (list, tuple, np.ndarray)):
        return "[" + ", ".join(repr(e) for e in f) + "]"
    return repr(f[0])


def plain(c):
    """64-bit numpy scalars behave like the python scalars of their category: keep the model in python values."""
    if type(c) in (np.int64, np.float64, np.bool_):
        return c.item()
    return c


# ----------------------------------------------------------------------------- the model
class AttrModel:
    """model[i] = last value written there, else the default; defined for 0 <= i < n."""

    def __init__(self, cat, arity, default_scalar, n):
        self.cat = cat
        self.k = arity
        d = type_default(cat) if default_scalar is None else plain(default_scalar)
        self.default = [d] * arity
        self.n = n
        self.written = {}

    def get(self, i):
        return self.written.get(i, self.default)

    def is_written(self, i):
        return i in self.written

    def set(self, i, comps):
        self.written[i] = [plain(c) for c in comps]

    def grow(self, m):
        self.n += m

    def clear(self):
        self.written = {}

    def copy(self):
        m = AttrModel.__new__(AttrModel)
        m.cat, m.k, m.default, m.n = self.cat, self.k, list(self.default), self.n
        m.written = {i: list(v) for i, v in self.written.items()}
        return m

    def unset_indices(self):
        return [i for i in range(self.n) if i not in self.written]


def entry_category(comps):
    """Common exact python category of the components of a stored value, or None when they are mixed, numpy-narrow
    or not plain python scalars (in-place arithmetic on such an entry follows numpy's rules, which the property
    does not speak about)."""
    cats = set()
    for c in comps:
        if isinstance(c, np.generic):
            return None
        cats.add(category(c))
    if len(cats) != 1:
        return None
    return cats.pop()


# ----------------------------------------------------------------------------- value generators
_STRINGS = ["", "a", "ab", "x y", " lead", "trail ", "é∂Ω", "0", "1.5", "True", "nan", "café",
            "abcdefghijklmnopqrstuvwxyzABCDEF",       # exactly 32 characters
            "☃" * 32, "tab\there", "quote'\"", "line\nbreak", "z" * 31]

_FLOATS = [0.0, -0.0, 1.0, -1.0, 0.5, 1.5, -2.25, 1e-300, 5e-324, 1.7976931348623157e308, -1e308, 3.141592653589793,
           float("inf"), float("-inf"), float("nan"), 1e16, 123456.789, 2.0 ** 53, -(2.0 ** 53) + 1, 0.1, 1 / 3]

_INTS = [0, 1, -1, 2, 3, 7, -5, 42, 255, 256, -128, 1000, 65535, 2 ** 31 - 1, 2 ** 31, -2 ** 31, 2 ** 53 - 1, -(2 ** 53) + 1,
         2 ** 40 + 3]


def gen_scalar(rng, cat, numpy_ok=True):
    """A scalar of category `cat` (python type, or one of the numpy scalar types mouette lists as supported)."""
    r = rng.random()
    if cat == "bool":
        v = rng.random() < 0.5
        return np.bool_(v) if (numpy_ok and r < 0.25) else v
    if cat == "int":
        v = rng.choice(_INTS) if r < 0.5 else rng.randrange(-1000, 1001)
        if numpy_ok:
            q = rng.random()
            if q < 0.10:
                return np.int64(v)
            if q < 0.18:
                return np.int32(max(-2 ** 31, min(2 ** 31 - 1, v)))
            if q < 0.25:
                return np.uint8(abs(v) % 256)
        return v
    if cat == "float":
        v = rng.choice(_FLOATS) if r < 0.5 else (rng.uniform(-1000, 1000) if r < 0.8 else float(rng.randrange(-50, 50)))
        if numpy_ok:
            q = rng.random()
            if q < 0.10:
                return np.float64(v)
            if q < 0.20:
                with np.errstate(all="ignore"):
                    return np.float32(v)
        return v
    if cat == "complex":
        def part():
            q = rng.random()
            if q < 0.3:
                return float(rng.randrange(-9, 10))
            if q < 0.4:
                return rng.choice([float("inf"), float("-inf"), float("nan"), 0.0, -0.0])
            return rng.uniform(-100, 100)
        return complex(part(), part())
    if cat == "str":
        if r < 0.6:
            return rng.choice(_STRINGS)
        n = rng.randrange(0, STR_LIMIT + 1)
        return "".join(rng.choice("abcXYZ 019_-éα") for _ in range(n))
    raise ValueError(cat)


def gen_plain(rng, cat):
    """Small plain python scalar of category `cat` (used for arithmetic operands and view writes)."""
    if cat == "bool":
        return rng.random() < 0.5
    if cat == "int":
        return rng.randrange(-9, 10)
    if cat == "float":
        return rng.choice([0.5, -1.5, 2.0, 0.25, -3.0, 1e3, 0.1, 7.0])
    if cat == "complex":
        return complex(rng.randrange(-4, 5), rng.randrange(-4, 5))
    return rng.choice(["q", "", "w", "k9"])


_UNSUPPORTED = [lambda r: np.float16(1.5), lambda r: np.int16(3), lambda r: np.uint16(7), lambda r: np.int8(-3),
                lambda r: np.complex128(1 + 2j), lambda r: np.str_("np"), lambda r: np.uint32(5), lambda r: np.uint64(5),
                lambda r: np.complex64(2j)]


def gen_unsupported(rng):
    """A scalar whose exact type is none of the five value types as mouette lists them (not judged: agreement only)."""
    return rng.choice(_UNSUPPORTED)(rng)


def comps_in_bounds(comps):
    """Capacity limits that are documented and therefore kept out of the workload."""
    for c in comps:
        if isinstance(c, str):
            if len(c) > STR_LIMIT or "\x00" in c:
                return False
        elif isinstance(c, (int, np.integer)) and not isinstance(c, (bool, np.bool_)):
            if abs(int(c)) > INT_BOUND:
                return False
    return True


# ----------------------------------------------------------------------------- the statement's verdict on a write
def expected_write(shape, comps, tgt_cat, arity):
    """Verdict the property statement fixes for writing a value into an attribute (tgt_cat, arity).

    shape: "scalar" (comps has one element, the value is that scalar itself) or "seq" (the value is a flat sequence
    of len(comps) scalars).  Returns (verdict, reason): verdict in {"accept", "reject", None}; None = not judged
    (the statement leaves it open; only sparse/dense agreement is demanded)."""
    cats = [category(c) for c in comps]
    if shape == "scalar":
        if arity != 1:
            if isinstance(comps[0], str):
                return None, "string_scalar_into_vector"      # a string is itself a sequence of characters
            return "reject", "wrong_arity"
    else:
        if arity == 1:
            if len(comps) == 1:
                return None, "length1_sequence_into_scalar"
            return "reject", "wrong_arity"
        if len(comps) != arity:
            return "reject", "wrong_arity"
    if any(c is None for c in cats):
        if any(c is not None and not castable(c, tgt_cat) for c in cats):
            return "reject", "uncastable:%s->%s" % ("/".join(sorted({c for c in cats if c})), tgt_cat)
        return None, "type_outside_the_five_value_types"
    bad = sorted({c for c in cats if not castable(c, tgt_cat)})
    if bad:
        if castable(cats[0], tgt_cat):
            return "reject", "mixed_vector_with_uncastable_component:%s->%s" % ("/".join(bad), tgt_cat)
        return "reject", "uncastable:%s->%s" % ("/".join(bad), tgt_cat)
    return "accept", "castable"


# ----------------------------------------------------------------------------- in-place arithmetic on the model
def apply_op(op, comps, x):
    """comps (op)= x, component-wise; x is a scalar or a list of len(comps) scalars."""
    xs = x if isinstance(x, list) else [x] * len(comps)
    out = []
    for c, y in zip(comps, xs):
        if op == "iadd":
            out.append(c + y)
        elif op == "imul":
            out.append(c * y)
        elif op == "ixor":
            out.append(bool(c) ^ bool(y))
        else:
            raise ValueError(op)
    return out


def finite(comps):
    for c in comps:
        if isinstance(c, str):
            continue
        z = complex(c)
        if not (math.isfinite(z.real) and math.isfinite(z.imag)):
            return False
    return True


def magnitude(comps):
    m = 0.0
    for c in comps:
        if not isinstance(c, str):
            m = max(m, abs(complex(c)))
    return m
