"""Brute-force reference for C11 (nearest-neighbour and radius queries).  Independent of mouette.

Distances are Euclidean, computed in float64 as sqrt(sum((p-q)^2)).  The library computes sqrt(dot(q-p, q-p)); the
component differences are the same floating-point numbers, the summation may differ in the last units, so the two
values agree to a few ulps relative.  `TOL` (1e-12 relative) is the tie band: decisions that depend on distances closer
than that are not judged.  When all coordinates of the points and of the query are integers below 2^20 every operation
before the (correctly rounded) square root is exact in both computations and the band can be zero (`exact=True`).
"""
import numpy as np

TOL = 1e-12


def dists(P64, q):
    P64 = np.asarray(P64, dtype=np.float64)
    q = np.asarray(q, dtype=np.float64).reshape(-1)
    if P64.shape[0] == 0:
        return np.zeros(0)
    D = P64 - q[None, :]
    return np.sqrt(np.einsum("ij,ij->i", D, D))


def close(a, b, tol):
    """|a-b| within the relative band (elementwise or scalar)."""
    a = np.asarray(a, dtype=np.float64)
    b = np.asarray(b, dtype=np.float64)
    return np.abs(a - b) <= tol * np.maximum(np.abs(a), np.abs(b))


def knn_expected(dist, k):
    """The min(k,n) smallest distances in non-decreasing order."""
    k = min(int(k), dist.size)
    if k <= 0:
        return np.zeros(0)
    return np.sort(dist)[:k]


def radius_must_may(dist, r, tol):
    """(must, may): index sets; every point of `must` has to be reported, nothing outside `may` may be."""
    lo = r * (1.0 - tol)
    hi = r * (1.0 + tol)
    must = set(np.nonzero(dist <= lo)[0].tolist())
    may = set(np.nonzero(dist <= hi)[0].tolist())
    return must, may
