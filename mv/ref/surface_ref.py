"""Reference connectivity of an oriented manifold polygon surface, from the face list alone (no mouette import)."""


class RefSurface:
    def __init__(self, nV, F):
        self.nV = nV
        self.F = [list(map(int, f)) for f in F]
        self.offset = []
        o = 0
        for f in self.F:
            self.offset.append(o)
            o += len(f)
        self.nC = o
        self.corner = []  # corner -> (face, k)
        for fi, f in enumerate(self.F):
            for k in range(len(f)):
                self.corner.append((fi, k))
        self.he = {}  # (u,v) -> (face, k)
        for fi, f in enumerate(self.F):
            n = len(f)
            for k in range(n):
                self.he[(f[k], f[(k + 1) % n])] = (fi, k)
        self.edges = set()
        for (u, v) in self.he:
            self.edges.add((min(u, v), max(u, v)))
        self.nbrs = {v: set() for v in range(nV)}
        for (u, v) in self.edges:
            self.nbrs[u].add(v)
            self.nbrs[v].add(u)
        self.v2f = {v: [] for v in range(nV)}
        self.v2c = {v: [] for v in range(nV)}
        for fi, f in enumerate(self.F):
            for k, v in enumerate(f):
                self.v2f[v].append(fi)
                self.v2c[v].append(self.offset[fi] + k)
        self.border_edges = {e for e in self.edges if (e in self.he) != ((e[1], e[0]) in self.he)}
        self.border_vertices = {v for e in self.border_edges for v in e}

    # --- corners
    def corner_id(self, fi, k):
        return self.offset[fi] + k % len(self.F[fi])

    def next_corner(self, c):
        fi, k = self.corner[c]
        return self.corner_id(fi, k + 1)

    def previous_corner(self, c):
        fi, k = self.corner[c]
        return self.corner_id(fi, k - 1)

    def half_edge(self, c):
        fi, k = self.corner[c]
        f = self.F[fi]
        return (f[k], f[(k + 1) % len(f)])

    def opposite_corner(self, c):
        a, b = self.half_edge(c)
        o = self.he.get((b, a))
        return None if o is None else self.corner_id(*o)

    def half_edge_to_corner(self, u, v):
        o = self.he.get((u, v))
        return None if o is None else self.corner_id(*o)

    def direct_face(self, u, v):
        o = self.he.get((u, v))
        return None if o is None else o[0]

    def direct_face_inds(self, u, v):
        o = self.he.get((u, v))
        if o is None:
            return (None, None, None)
        return (o[0], o[1], (o[1] + 1) % len(self.F[o[0]]))

    def opposite_face(self, u, v, f):
        f1, f2 = self.direct_face(u, v), self.direct_face(v, u)
        if f1 is None and f2 is None:
            return None
        if f == f1:
            return f2
        if f == f2:
            return f1
        return None

    def shared_edges(self, f1, f2):
        s = set()
        f = self.F[f1]
        for k in range(len(f)):
            a, b = f[k], f[(k + 1) % len(f)]
            if self.direct_face(b, a) == f2:
                s.add((min(a, b), max(a, b)))
        return s

    def face_neighbours(self, fi):
        f = self.F[fi]
        out = []
        for k in range(len(f)):
            a, b = f[k], f[(k + 1) % len(f)]
            o = self.direct_face(b, a)
            if o is not None:
                out.append(o)
        return out

    # --- rings
    def faces_share_edge_at(self, v, f1, f2):
        """True when faces f1 != f2 share an edge incident to v."""
        f = self.F[f1]
        k = f.index(v)
        n = len(f)
        for w in (f[(k + 1) % n], f[(k - 1) % n]):
            if self.direct_face(v, w) == f2 or self.direct_face(w, v) == f2:
                if f2 != f1:
                    return True
        return False

    def check_face_ring(self, v, ring):
        """ring: list of faces around v.  Returns None when it is a valid rotational order, else a reason string."""
        want = self.v2f[v]
        if sorted(ring) != sorted(want):
            return "not_the_incident_faces"
        n = len(ring)
        if n <= 1:
            return None
        for i in range(n - 1):
            if not self.faces_share_edge_at(v, ring[i], ring[i + 1]):
                return "consecutive_faces_not_adjacent"
        if v not in self.border_vertices and n > 2:
            if not self.faces_share_edge_at(v, ring[-1], ring[0]):
                return "ring_not_closed"
        return None

    def neighbours_span_face(self, v, w1, w2):
        """True when some face has both (v,w1) and (v,w2) as sides."""
        for fi in self.v2f[v]:
            f = self.F[fi]
            k = f.index(v)
            n = len(f)
            if {f[(k + 1) % n], f[(k - 1) % n]} == {w1, w2}:
                return True
        return False

    def check_vertex_ring(self, v, ring):
        if sorted(ring) != sorted(self.nbrs[v]) or len(set(ring)) != len(ring):
            return "not_the_neighbours"
        n = len(ring)
        if n <= 1:
            return None
        if n == 2 and v not in self.border_vertices:
            return None
        for i in range(n - 1):
            if not self.neighbours_span_face(v, ring[i], ring[i + 1]):
                return "consecutive_neighbours_do_not_span_a_face"
        if v in self.border_vertices:
            ends = {ring[0], ring[-1]}
            bn = {w for w in self.nbrs[v] if (min(v, w), max(v, w)) in self.border_edges}
            if ends != bn:
                return "border_fan_does_not_run_between_border_edges"
        elif n > 2 and not self.neighbours_span_face(v, ring[-1], ring[0]):
            return "ring_not_closed"
        return None
