"""Harness-side helpers that build mouette objects from raw reference data and toggle global config safely."""
import contextlib

import numpy as np


def rows(F, how):
    """Index rows in the requested container type."""
    if how == "list":
        return [list(map(int, f)) for f in F]
    if how == "tuple":
        return [tuple(map(int, f)) for f in F]
    if how == "npint":
        return [tuple(np.int64(v) for v in f) for f in F]
    if how == "nprow":
        return [np.array(f, dtype=np.int64) for f in F]
    raise KeyError(how)


def coords(V, how):
    V = np.asarray(V, dtype=float)
    if how == "list":
        return [list(map(float, p)) for p in V]
    if how == "tuple":
        return [tuple(map(float, p)) for p in V]
    if how == "nprow":
        A = V.copy()
        return [A[i] for i in range(len(A))]
    if how == "vec":
        import mouette as M
        return [M.Vec(list(map(float, p))) for p in V]
    raise KeyError(how)


def raw(V, E=None, F=None, C=None, vrows="list", irows="list"):
    import mouette as M
    data = M.mesh.RawMeshData()
    data.vertices += coords(V, vrows)
    if E is not None and len(E):
        data.edges += rows(E, irows)
    if F is not None and len(F):
        data.faces += rows(F, irows)
    if C is not None and len(C):
        data.cells += rows(C, irows)
    return data


def surface(V, F, vrows="list", irows="list", E=None, subclass=False):
    import mouette as M
    if subclass:
        # an instance of a user-defined subclass of SurfaceMesh (a documented extension point: the mesh classes are ordinary classes)
        return _user_surface_class()(raw(V, E=E, F=F, vrows=vrows, irows=irows))
    return M.mesh.SurfaceMesh(raw(V, E=E, F=F, vrows=vrows, irows=irows))


_USER_CLASS = []


def _user_surface_class():
    import mouette as M
    if not _USER_CLASS:
        class TaggedSurface(M.mesh.SurfaceMesh):
            """SurfaceMesh with one extra field, as user code would define it."""
            def __init__(self, data=None):
                super().__init__(data)
                self.tag = "user"
        _USER_CLASS.append(TaggedSurface)
    return _USER_CLASS[0]


def volume(V, C, vrows="list", irows="list"):
    import mouette as M
    return M.mesh.VolumeMesh(raw(V, C=C, vrows=vrows, irows=irows))


def polyline(V, E, vrows="list", irows="list"):
    import mouette as M
    return M.mesh.PolyLine(raw(V, E=E, vrows=vrows, irows=irows))


def pointcloud(V, vrows="list"):
    import mouette as M
    return M.mesh.PointCloud(raw(V, vrows=vrows))


@contextlib.contextmanager
def config(**switches):
    """Sets mouette.config switches for the duration of a block and always restores them."""
    import mouette as M
    old = {k: getattr(M.config, k) for k in switches}
    try:
        for k, v in switches.items():
            setattr(M.config, k, v)
        yield
    finally:
        for k, v in old.items():
            setattr(M.config, k, v)


def vertices_array(mesh):
    return np.array([np.asarray(p, dtype=float) for p in mesh.vertices], dtype=float).reshape(-1, 3)


def faces_list(mesh):
    return [[int(v) for v in f] for f in mesh.faces]


def cells_list(mesh):
    return [[int(v) for v in c] for c in mesh.cells]


def edges_list(mesh):
    return [tuple(int(v) for v in e) for e in mesh.edges]
