"""Line-level reach of the workload inside mouette, recorded with sys.monitoring (PEP 669).

Every source line of the mouette package reports its first execution and is then switched off (DISABLE), so the cost is one callback per line
and per worker.  The runner merges the sets of all workers and writes, for the files a property is anchored in, how many executable lines and
which functions the monitored executions actually went through -- the evidence that an oracle saw the code, not just that the workload ran.
"""
import ast
import os
import sys

_new = []
_root = None


def start(repo_root):
    """Call before mouette is imported.  Returns False when sys.monitoring is not available."""
    global _root
    mon = getattr(sys, "monitoring", None)
    if mon is None:
        return False
    _root = os.path.join(os.path.realpath(repo_root), "mouette") + os.sep
    tool = mon.COVERAGE_ID
    try:
        mon.use_tool_id(tool, "mv.linecov")
    except ValueError:
        return False
    root = _root
    disable = mon.DISABLE
    new = _new

    def on_line(code, line):
        fn = code.co_filename
        if fn.startswith(root):
            new.append((fn[len(root):], line))
        return disable

    mon.register_callback(tool, mon.events.LINE, on_line)
    mon.set_events(tool, mon.events.LINE)
    return True


def drain():
    """Lines seen for the first time since the last call, as {relative path: [lines]}."""
    out = {}
    while _new:
        fn, line = _new.pop()
        out.setdefault(fn, []).append(line)
    return out


def _code_lines(code, acc):
    for _, _, ln in code.co_lines():
        if ln is not None and ln > 0:
            acc.add(ln)
    for c in code.co_consts:
        if hasattr(c, "co_lines"):
            _code_lines(c, acc)


def executable_lines(path):
    with open(path) as f:
        src = f.read()
    acc = set()
    _code_lines(compile(src, path, "exec"), acc)
    return acc, src


def functions(src):
    """[(qualified name, first body line, last line)] for every function / method."""
    out = []

    def walk(node, prefix):
        for ch in ast.iter_child_nodes(node):
            if isinstance(ch, (ast.FunctionDef, ast.AsyncFunctionDef)):
                body = ch.body
                first = body[0].lineno
                if isinstance(body[0], ast.Expr) and isinstance(getattr(body[0], "value", None), ast.Constant) and isinstance(body[0].value.value, str):
                    first = body[1].lineno if len(body) > 1 else body[0].end_lineno + 1
                out.append((prefix + ch.name, first, ch.end_lineno))
                walk(ch, prefix + ch.name + ".")
            elif isinstance(ch, ast.ClassDef):
                walk(ch, prefix + ch.name + ".")
            else:
                walk(ch, prefix)
    walk(ast.parse(src), "")
    return out


def summarise(repo_root, relpath, executed):
    """executed: set of line numbers seen in mouette/<relpath>."""
    path = os.path.join(repo_root, "mouette", relpath)
    try:
        exe, src = executable_lines(path)
    except (OSError, SyntaxError):
        return None
    fns = functions(src)
    reached, unreached, partial = 0, [], []
    for name, a, b in fns:
        body = {l for l in exe if a <= l <= b}
        # lines of nested functions count for the nested function only
        for n2, a2, b2 in fns:
            if a < a2 and b2 <= b and n2 != name and n2.startswith(name + "."):
                body -= {l for l in body if a2 - 1 <= l <= b2}
        if not body:
            continue
        hit = body & executed
        if hit:
            reached += 1
            if len(hit) < len(body):
                partial.append("%s(%d/%d)" % (name, len(hit), len(body)))
        else:
            unreached.append(name)
    return {"file": "mouette/" + relpath, "executable_lines": len(exe), "executed_lines": len(exe & executed),
            "functions_reached": reached, "functions_unreached": len(unreached),
            "unreached_functions": unreached[:60], "partially_executed_functions": partial[:60]}
