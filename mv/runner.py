"""Runner: plans cases, shards them over worker subprocesses, folds events into a verdict,
writes evidence and replay files.

  python -m mv.runner Cxx [quick|thorough] [--replay file] [--jobs N] [--only substring]

Exit codes: 0 held on everything explored; 1 violated (VIOLATION lines); 2 inconclusive.
"""
import importlib
import json
import os
import shutil
import subprocess
import sys
import tempfile
import time

from . import findings as findings_mod

HERE = os.path.dirname(os.path.dirname(os.path.abspath(__file__)))


def _arg(argv, name, default=None):
    if name in argv:
        i = argv.index(name)
        v = argv[i + 1]
        del argv[i:i + 2]
        return v
    return default


class Shard:
    def __init__(self, prop, cases, tmp, k, case_timeout):
        self.prop = prop
        self.pending = list(cases)  # [(idx, desc)]
        self.tmp = tmp
        self.k = k
        self.gen = 0
        self.case_timeout = case_timeout
        self.proc = None
        self.out_path = None
        self.read_pos = 0
        self.current = None
        self.started_at = None
        self.last_progress = None
        self.stderr_path = None

    def launch(self):
        self.gen += 1
        base = os.path.join(self.tmp, "s%d_%d" % (self.k, self.gen))
        with open(base + ".in.json", "w") as f:
            json.dump({"cases": self.pending, "case_timeout": self.case_timeout}, f)
        self.out_path = base + ".out.jsonl"
        open(self.out_path, "w").close()
        self.read_pos = 0
        self.stderr_path = base + ".err"
        env = dict(os.environ)
        env["PYTHONPYCACHEPREFIX"] = os.path.join(self.tmp, "pyc")
        self.proc = subprocess.Popen(
            [sys.executable, "-B", "-m", "mv.worker", self.prop, base + ".in.json", self.out_path],
            cwd=HERE, env=env, stdout=subprocess.DEVNULL, stderr=open(self.stderr_path, "w"))
        self.current = None
        self.last_progress = time.time()
        self.cpu_at_progress = 0.0

    def poll_lines(self):
        recs = []
        with open(self.out_path) as f:
            f.seek(self.read_pos)
            while True:
                pos = f.tell()
                line = f.readline()
                if not line:
                    break
                if not line.endswith("\n"):
                    f.seek(pos)
                    break
                self.read_pos = f.tell()
                try:
                    recs.append(json.loads(line))
                except ValueError:
                    pass
        return recs


def _proc_cpu_seconds(pid):
    try:
        with open("/proc/%d/stat" % pid) as f:
            parts = f.read().rsplit(")", 1)[1].split()
        return (int(parts[11]) + int(parts[12])) / float(os.sysconf("SC_CLK_TCK"))
    except Exception:
        return 0.0


def run_cases(prop, cases, jobs, case_timeout, hang_timeout):
    """Returns list of per-case records (dicts with 'i', 'status', ...)."""
    tmp = tempfile.mkdtemp(prefix="mv_%s_" % prop)
    results = {}
    try:
        n = len(cases)
        jobs = max(1, min(jobs, n))
        indexed = list(enumerate(cases))
        shards = [Shard(prop, indexed[k::jobs], tmp, k, case_timeout) for k in range(jobs)]
        for s in shards:
            s.launch()
        active = list(shards)
        stalls = 0
        max_stalls = int(os.environ.get("VERIF_MAX_STALLS", "8"))
        while active:
            time.sleep(0.05)
            if stalls > max_stalls:
                # the watchdog keeps firing: stop instead of spending (cases x timeout); everything not yet run is reported as skipped (inconclusive)
                for s in active:
                    try:
                        s.proc.kill()
                        s.proc.wait()
                    except Exception:
                        pass
                    for i, _ in s.pending:
                        if i not in results:
                            results[i] = {"i": i, "status": "skipped_after_repeated_timeouts"}
                break
            for s in list(active):
                progressed = False
                for rec in s.poll_lines():
                    progressed = True
                    if rec["t"] == "start":
                        s.current = rec["i"]
                    elif rec["t"] == "end":
                        if rec.get("status") == "timeout":
                            stalls += 1
                        results[rec["i"]] = rec
                        s.pending = [c for c in s.pending if c[0] != rec["i"]]
                        s.current = None
                    elif rec["t"] == "done":
                        pass
                if progressed:
                    s.last_progress = time.time()
                rc = s.proc.poll()
                if progressed:
                    s.cpu_at_progress = _proc_cpu_seconds(s.proc.pid)
                if rc is None:
                    # a worker is declared hung on CPU time burnt without progress (robust against a loaded machine); wall-clock time is only a
                    # generous backstop
                    burnt = _proc_cpu_seconds(s.proc.pid) - getattr(s, "cpu_at_progress", 0.0)
                    if burnt > hang_timeout or time.time() - s.last_progress > hang_timeout * 20 + 900:
                        s.proc.kill()
                        s.proc.wait()
                        rc = -9
                        hung = True
                    else:
                        continue
                else:
                    hung = False
                    # drain
                    for rec in s.poll_lines():
                        if rec["t"] == "start":
                            s.current = rec["i"]
                        elif rec["t"] == "end":
                            results[rec["i"]] = rec
                            s.pending = [c for c in s.pending if c[0] != rec["i"]]
                            s.current = None
                if not s.pending:
                    active.remove(s)
                    continue
                # worker died with work left: attribute to the case in progress and continue with the rest
                try:
                    errtxt = open(s.stderr_path).read()[-3000:]
                except OSError:
                    errtxt = ""
                if rc == 97:
                    for i, _ in s.pending:
                        results[i] = {"i": i, "status": "harness_error", "err": "worker bound to wrong mouette: " + errtxt}
                    active.remove(s)
                    continue
                victim = s.current if s.current is not None else s.pending[0][0]
                if s.current is None and rc != 0 and not hung:
                    # died before starting any case (import failure): harness/import error for all
                    for i, _ in s.pending:
                        results[i] = {"i": i, "status": "import_error", "err": errtxt}
                    active.remove(s)
                    continue
                results[victim] = {"i": victim, "status": "hang" if hung else "crash", "rc": rc, "err": errtxt}
                if hung:
                    stalls += 1
                s.pending = [c for c in s.pending if c[0] != victim]
                if s.pending:
                    s.launch()
                else:
                    active.remove(s)
    finally:
        shutil.rmtree(tmp, ignore_errors=True)
    return [results.get(i, {"i": i, "status": "missing"}) for i in range(len(cases))]


def _anchor_coverage(prop, seen):
    """Reach of the monitored executions inside the files the property is anchored in (sys.monitoring LINE events, see mv/linecov.py)."""
    from . import linecov
    repo = os.path.realpath(os.environ.get("MOUETTE_REPO", "/repo"))
    files = []
    try:
        with open(os.path.join(HERE, "properties.jsonl")) as f:
            for line in f:
                d = json.loads(line)
                if d.get("id") == prop:
                    files = list(d.get("anchors", {}).get("files", []))
    except (OSError, ValueError):
        pass
    if not seen:
        return {"recorded": False}
    out = {"recorded": True, "mouette_files_entered": len(seen), "mouette_lines_executed": sum(len(v) for v in seen.values()), "anchors": []}
    for fpath in files:
        rel = fpath[len("mouette/"):] if fpath.startswith("mouette/") else fpath
        sm = linecov.summarise(repo, rel, seen.get(rel, set()))
        if sm is not None:
            out["anchors"].append(sm)
    try:
        cdir = os.path.join(HERE, "covdata") if repo == "/repo" else os.path.join(HERE, "evidence_scratch", os.path.basename(repo), "covdata")
        os.makedirs(cdir, exist_ok=True)
        with open(os.path.join(cdir, prop + ".json"), "w") as f:
            json.dump({k: sorted(v) for k, v in sorted(seen.items())}, f)
    except OSError:
        pass
    return out


def main(argv=None):
    argv = list(sys.argv[1:] if argv is None else argv)
    replay = _arg(argv, "--replay")
    jobs = int(_arg(argv, "--jobs", os.environ.get("VERIF_JOBS", "16")))
    only = _arg(argv, "--only")
    limit = _arg(argv, "--limit")
    if not argv:
        print("usage: check Cxx [quick|thorough] [--replay f]")
        return 2
    prop = argv[0].upper()
    tier = os.environ.get("VERIF_TIER") or (argv[1] if len(argv) > 1 else "quick")
    if len(argv) > 1 and argv[1] in ("quick", "thorough"):
        tier = argv[1]
    if tier not in ("quick", "thorough"):
        tier = "quick"
    seed = int(os.environ.get("VERIF_SEED", "0") or 0)
    t0 = time.time()
    try:
        mod = importlib.import_module("mv.props." + prop.lower())
    except Exception as e:
        print("INCONCLUSIVE property=%s reason=no_module(%s)" % (prop, e))
        return 2

    if replay:
        with open(replay) as f:
            rp = json.load(f)
        cases = [rp["case"]]
        tier = rp.get("tier", tier)
    else:
        cases = list(mod.cases(seed, tier))
        if only:
            cases = [c for c in cases if only in json.dumps(c)]
        if limit:
            cases = cases[:int(limit)]
    if not cases:
        print("INCONCLUSIVE property=%s reason=no_cases" % prop)
        return 2
    case_timeout = getattr(mod, "CASE_TIMEOUT", {"quick": 120.0, "thorough": 300.0})[tier]
    hang_timeout = case_timeout + 60.0
    recs = run_cases(prop, cases, jobs, case_timeout, hang_timeout)

    # ---- fold -----------------------------------------------------------------
    counters, classes, notes = {}, {}, {}
    samples = []
    nontrivial = set()
    statuses = {}
    violations = []  # (case_index, violation dict)
    inconclusive = []
    linecov_seen = {}
    case_times = sorted(float(rec.get("dt", 0.0) or 0.0) for rec in recs)
    for rec in recs:
        st = rec.get("status", "missing")
        statuses[st] = statuses.get(st, 0) + 1
        for fn, lns in (rec.get("cov") or {}).items():
            linecov_seen.setdefault(fn, set()).update(lns)
        for k, v in rec.get("counters", {}).items():
            counters[k] = counters.get(k, 0) + v
        for k, v in rec.get("classes", {}).items():
            classes[k] = classes.get(k, 0) + v
        for k, v in rec.get("notes", {}).items():
            notes[k] = notes.get(k, 0) + v
        for k in rec.get("nontrivial", []):
            nontrivial.add(k)
        for s in rec.get("samples", []):
            if len(samples) < 6:
                samples.append(s)
        for v in rec.get("violations", []):
            violations.append((rec["i"], v))
        if st in ("crash",):
            d = cases[rec["i"]]
            mech = "crash:%s:native_abort" % d.get("site", d.get("gen", "case"))
            if hasattr(mod, "crash_mechanism"):
                mech = mod.crash_mechanism(d, rec)
            violations.append((rec["i"], {"monitor": "crash", "op": d.get("site", ""), "mechanism": mech,
                                          "what": "interpreter died (rc=%s) while running the case" % rec.get("rc"),
                                          "witness": {"stderr": rec.get("err", "")[-1500:]}}))
        elif st == "budget":
            pass  # property module already emitted what it wants (C11)
        elif st in ("timeout", "hang"):
            d = cases[rec["i"]]
            if hasattr(mod, "timeout_verdict"):
                v = mod.timeout_verdict(d, rec)
                if v is not None:
                    violations.append((rec["i"], v))
                    continue
            inconclusive.append("case %d (%s): %s" % (rec["i"], d.get("name", d.get("gen", "?")), st))
        elif st == "skipped_after_repeated_timeouts":
            if not any(x.startswith("run stopped") for x in inconclusive):
                inconclusive.append("run stopped: more than %s cases hit the per-case watchdog; the remaining cases were not run" % os.environ.get("VERIF_MAX_STALLS", "8"))
        elif st in ("harness_error", "import_error", "missing"):
            inconclusive.append("case %d: %s: %s" % (rec["i"], st, (rec.get("err") or "")[-600:]))

    kf = findings_mod.load(os.path.join(HERE, "known_findings.json"))
    unmatched, matched = [], {}
    for i, v in violations:
        ent = findings_mod.match(kf, prop, v["mechanism"])
        if ent is None:
            unmatched.append((i, v))
        else:
            matched.setdefault(ent["id"], (ent, []))[1].append((i, v))

    # required observations
    required = getattr(mod, "REQUIRED", {})
    req = required.get(tier, required) if isinstance(required.get("quick", None), dict) else required
    missing = []
    if not replay and not only and not limit:
        for k, n in req.items():
            got = sum(v for kk, v in counters.items() if kk == k or kk.startswith(k + "/"))
            # the thresholds were set near the counts measured at seed 0; counts vary with the seed by a few tens of percent, and the purpose
            # is to notice a deciding monitor that was (almost) never reached, so half the nominal count is demanded
            n_eff = max(1, int(n * 0.5))
            if got < n_eff:
                missing.append("%s observed %d < %d" % (k, got, n_eff))

    # ---- replays --------------------------------------------------------------
    rdir = os.path.join(HERE, "replays", prop)
    if not replay:
        shutil.rmtree(rdir, ignore_errors=True)
    os.makedirs(rdir, exist_ok=True)

    def write_replay(tag, i, v):
        safe = "".join(ch if ch.isalnum() else "_" for ch in v["mechanism"])[:80]
        path = os.path.join(rdir, "%s_%s_%d.json" % (tag, safe, i))
        with open(path, "w") as f:
            json.dump({"property": prop, "tier": tier, "seed": seed, "hash_seed": os.environ.get("PYTHONHASHSEED"),
                       "case": cases[i], "violation": v}, f, indent=1)
        return os.path.relpath(path, HERE)

    lines = []
    seen_mech = {}
    for i, v in unmatched:
        seen_mech.setdefault(v["mechanism"], []).append((i, v))
    for mech, lst in seen_mech.items():
        i, v = lst[0]
        path = write_replay("violation", i, v)
        lines.append("VIOLATION property=%s replay=%s mechanism=%s cases=%d what=%s"
                     % (prop, path, mech, len(lst), v["what"][:160]))
    for fid, (ent, lst) in matched.items():
        i, v = lst[0]
        write_replay("known", i, v)
        lines.append("KNOWN-FINDING: property=%s %s [%s; seen in %d case(s)]" % (prop, ent["what"], fid, len(lst)))
    stale = []
    if not replay and not only and not limit:
        for ent in kf:
            if ent.get("property") == prop and ent.get("status", "open") == "open" and ent["id"] not in matched:
                stale.append(ent["id"])
                lines.append("STALE-FINDING property=%s %s not reproduced by this run" % (prop, ent["id"]))

    verdict = "held"
    if seen_mech:
        verdict = "violated"
    elif inconclusive or missing:
        verdict = "inconclusive"

    wall = time.time() - t0
    if not replay:
        rule = getattr(mod, "RULE", "")
        anchor_cov = _anchor_coverage(prop, linecov_seen)
        evidence = {
            "property_id": prop, "tier": tier, "seed": seed, "level": "exploration",
            "coverage": {
                "evaluations": len(cases),
                "distinct_nontrivial": len(nontrivial),
                "rule": rule,
                "samples": samples if samples else [cases[0]],
                "observations": dict(sorted(counters.items())),
                "input_classes": dict(sorted(classes.items())),
                "notes": dict(sorted(notes.items())),
                "case_status": statuses,
                "case_seconds": {"max": round(case_times[-1], 3), "median": round(case_times[len(case_times) // 2], 4), "sum": round(sum(case_times), 1)} if case_times else {},
                "known_findings_seen": {fid: len(lst) for fid, (ent, lst) in matched.items()},
                "stale_findings": stale,
                "hash_seed": os.environ.get("PYTHONHASHSEED"),
                "repo": os.path.realpath(os.environ.get("MOUETTE_REPO", "/repo")),
                "anchor_line_coverage": anchor_cov,
                "exhaustive": bool(getattr(mod, "EXHAUSTIVE", False)),
                "verdict": verdict,
                "inconclusive_reasons": (inconclusive + missing)[:20],
                "unmatched_violation_mechanisms": sorted(seen_mech)[:50],
            },
            "assumptions": list(getattr(mod, "ASSUMPTIONS", [])),
            "wall_s": round(wall, 2),
            "violations": len(unmatched),
        }
        try:
            import jsonschema
            with open("/root/.vp/EVIDENCE.schema.json") as f:
                jsonschema.validate(evidence, json.load(f))
        except FileNotFoundError:
            pass
        except ImportError:
            pass
        except Exception as e:  # schema violation: report, still write
            lines.append("EVIDENCE-SCHEMA-PROBLEM %s" % str(e)[:300])
        # evidence/ only ever describes runs against /repo itself; runs against a scratch worktree (seeded-change evaluation) go elsewhere
        repo_dir = os.path.realpath(os.environ.get("MOUETTE_REPO", "/repo"))
        ev_dir = os.path.join(HERE, "evidence") if repo_dir == "/repo" else os.path.join(HERE, "evidence_scratch", os.path.basename(repo_dir))
        os.makedirs(ev_dir, exist_ok=True)
        with open(os.path.join(ev_dir, prop + ".json"), "w") as f:
            json.dump(evidence, f, indent=1, sort_keys=False)

    for ln in lines:
        print(ln)
    total_obs = sum(counters.values())
    print("%s %s tier=%s seed=%d cases=%d nontrivial=%d observations=%d violations=%d known=%d wall=%.1fs"
          % (prop, verdict.upper(), tier, seed, len(cases), len(nontrivial), total_obs, len(unmatched),
             sum(len(l) for _, l in matched.values()), wall))
    if verdict == "violated":
        return 1
    if verdict == "inconclusive":
        for r in (inconclusive + missing)[:10]:
            print("INCONCLUSIVE property=%s reason=%s" % (prop, r.replace("\n", " | ")[:700]))
        return 2
    return 0


if __name__ == "__main__":
    sys.exit(main())
