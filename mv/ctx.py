"""Per-case monitoring context used inside a worker.

A property module receives a `Ctx` in `run_case(desc, ctx)` and reports through it:

  ctx.obs(monitor, op)                  one observation by a monitor (counted, reported in the evidence)
  ctx.check(cond, monitor, op, mech, what, **witness)   obs + violation when cond is false
  ctx.violation(monitor, op, mech, what, **witness)
  ctx.call(site, fn, *a, expect=(..), **kw)   call into mouette; an unexpected exception is a violation
  ctx.cls(name)                         histogram of input classes
  ctx.nontrivial(key)                   the case is non-trivial by the module's RULE; key = canonical input hash
  ctx.sample(obj)                       candidate sample for the evidence file
  ctx.note(name)                        observation that is not a verdict (reported in evidence)

The *mechanism* string of a violation is computed by the monitor from the witness (what kind of
disagreement, at which call site); known findings are matched on it, never on seeds or hashes.
"""
import hashlib
import json
import traceback

import numpy as np


class CaseAbort(Exception):
    """Raised by ctx.call after an unexpected exception was recorded; ends the case quietly."""


class CaseTimeout(BaseException):
    """Raised by the worker's per-case alarm."""


class StepBudgetExceeded(Exception):
    """Raised by logical-step hooks (C11)."""


def jsonable(x, depth=0):
    """Best-effort conversion of a witness to JSON data (bounded size)."""
    if depth > 6:
        return repr(x)[:200]
    if x is None or isinstance(x, (bool, int, str)):
        return x
    if isinstance(x, float):
        if x != x or x in (float("inf"), float("-inf")):
            return repr(x)
        return x
    if isinstance(x, complex):
        return {"re": jsonable(x.real), "im": jsonable(x.imag)}
    if isinstance(x, (np.bool_,)):
        return bool(x)
    if isinstance(x, np.integer):
        return int(x)
    if isinstance(x, np.floating):
        return jsonable(float(x))
    if isinstance(x, np.complexfloating):
        return jsonable(complex(x))
    if isinstance(x, np.ndarray):
        if x.size > 400:
            return {"ndarray_shape": list(x.shape), "head": jsonable(x.ravel()[:60].tolist(), depth + 1)}
        return jsonable(x.tolist(), depth + 1)
    if isinstance(x, dict):
        out = {}
        for i, (k, v) in enumerate(x.items()):
            if i >= 200:
                out["..."] = "truncated"
                break
            out[str(k)] = jsonable(v, depth + 1)
        return out
    if isinstance(x, (list, tuple, set, frozenset)):
        xs = list(x)
        if isinstance(x, (set, frozenset)):
            try:
                xs = sorted(xs)
            except TypeError:
                xs = sorted(xs, key=repr)
        out = [jsonable(v, depth + 1) for v in xs[:400]]
        if len(xs) > 400:
            out.append("...truncated %d" % (len(xs) - 400))
        return out
    return repr(x)[:300]


def stable_hash(obj):
    return hashlib.sha1(json.dumps(jsonable(obj), sort_keys=True).encode()).hexdigest()[:16]


def mouette_site(tb):
    """Innermost frame of a traceback that lies inside the mouette package: 'file.py:function'."""
    site = None
    for fs in traceback.extract_tb(tb):
        fn = fs.filename.replace("\\", "/")
        if "/mouette/" in fn:
            site = fn.split("/mouette/")[-1] + ":" + fs.name
    return site


class Ctx:
    MAX_VIOL_PER_CASE = 12

    def __init__(self, prop, desc):
        self.prop = prop
        self.desc = desc
        self.counters = {}
        self.classes = {}
        self.notes = {}
        self.violations = []
        self.samples = []
        self.nontrivial_keys = []
        self.info = {}

    # -- observations ----------------------------------------------------
    def obs(self, monitor, op="", n=1):
        k = monitor + ("/" + op if op else "")
        self.counters[k] = self.counters.get(k, 0) + n

    def cls(self, name, n=1):
        self.classes[name] = self.classes.get(name, 0) + n

    def note(self, name, n=1):
        self.notes[name] = self.notes.get(name, 0) + n

    def nontrivial(self, key):
        self.nontrivial_keys.append(key if isinstance(key, str) else stable_hash(key))

    def sample(self, obj):
        if len(self.samples) < 2:
            self.samples.append(jsonable(obj))

    # -- violations ------------------------------------------------------
    def violation(self, monitor, op, mech, what, **witness):
        if len(self.violations) >= self.MAX_VIOL_PER_CASE:
            return
        self.violations.append({
            "monitor": monitor, "op": op,
            "mechanism": "%s:%s:%s" % (monitor, op, mech),
            "what": what, "witness": jsonable(witness),
        })

    def check(self, cond, monitor, op, mech, what, **witness):
        self.obs(monitor, op)
        if not cond:
            self.violation(monitor, op, mech, what, **witness)
            return False
        return True

    def call(self, site, fn, *args, expect=(), monitor="call", abort=True, **kwargs):
        """Call into the code under test.  Returns (True, value) or (False, exception) when the
        exception is one of `expect`.  Any other exception is an *unexpected exception* violation."""
        try:
            return True, fn(*args, **kwargs)
        except CaseTimeout:
            raise
        except StepBudgetExceeded:
            raise
        except expect as e:  # noqa
            return False, e
        except Exception as e:
            tb = traceback.format_exc()
            where = mouette_site(e.__traceback__) or "harness"
            self.violation(monitor, site, "exception:%s@%s" % (type(e).__name__, where),
                           "unexpected %s in %s: %s" % (type(e).__name__, site, str(e)[:200]),
                           traceback=tb[-1800:])
            if abort:
                raise CaseAbort()
            return False, e
