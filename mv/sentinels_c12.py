"""Side-effect sentinel for C12 (DESIGN 4.5).

Brackets one call into mouette: before the call it fingerprints
  (a) every ndarray reachable from the arguments (also inside lists / tuples / dicts), every box and mesh argument,
  (b) every *bystander* registered by the case (caller arrays a box was built from, sibling boxes, meshes),
  (c) numpy.geterr();
after the call - on return AND on raise - it compares.  The caller names the objects the function is documented to
modify (`modifies=`), those are skipped.  The numpy error configuration the case runs under is installed right before
the call and the harness configuration ("ignore") right after the comparison, so that harness arithmetic is never
affected by the configuration under test and a leaked configuration never cascades into the next call.

Nothing here imports mouette: boxes and meshes are recognised structurally (`_p1/_p2`, `vertices._data`)."""
import traceback

import numpy as np

from .ctx import CaseTimeout, StepBudgetExceeded, mouette_site

HARNESS_ERR = dict(divide="ignore", over="ignore", under="ignore", invalid="ignore")

ERR_CONFIGS = {
    "ignore": dict(divide="ignore", over="ignore", under="ignore", invalid="ignore"),
    "warn": dict(divide="warn", over="warn", under="warn", invalid="warn"),
    "raise": dict(divide="raise", over="raise", under="raise", invalid="raise"),
    "default": dict(divide="warn", over="warn", under="ignore", invalid="warn"),
    "mixed": dict(divide="raise", over="ignore", under="ignore", invalid="warn"),
    "print": dict(divide="ignore", over="warn", under="ignore", invalid="raise"),
}


class LawBroken(Exception):
    """Raised by the icontract post-conditions attached to the real AABB methods."""

    def __init__(self, fn, mech, what, witness=None):
        super().__init__("%s: %s" % (fn, what))
        self.fn, self.mech, self.what, self.witness = fn, mech, what, witness or {}


# ------------------------------------------------------------------------------------------------ fingerprints
def fp_array(a):
    try:
        b = np.asarray(a)
        return ("nd", b.shape, b.dtype.str, bool(b.flags.writeable), b.tobytes())
    except Exception as e:  # pragma: no cover - defensive
        return ("nd-unreadable", type(e).__name__)


def is_box(o):
    return hasattr(o, "_p1") and hasattr(o, "_p2") and type(o).__name__ == "AABB"


def is_mesh(o):
    v = getattr(o, "vertices", None)
    return v is not None and hasattr(v, "_data") and hasattr(v, "_attr")


def fp_box(b):
    return ("box", fp_array(b._p1), fp_array(b._p2))


def _plain(x):
    if isinstance(x, np.ndarray):
        return (x.dtype.str, x.shape, x.tobytes())
    if isinstance(x, (list, tuple)):
        return tuple(_plain(v) for v in x)
    if isinstance(x, np.generic):
        return x.item()
    return x


def _fp_attrs(cont):
    out = []
    for name in sorted(getattr(cont, "_attr", {}).keys()):
        a = cont._attr[name]
        d = getattr(a, "_data", None)
        if isinstance(d, dict):
            body = tuple(sorted(((k, repr(_plain(v))) for k, v in d.items()), key=repr))
        elif isinstance(d, np.ndarray):
            body = (d.dtype.str, d.shape, d.tobytes())
        else:
            body = repr(d)
        out.append((name, type(a).__name__, getattr(a, "elemsize", None), body))
    return tuple(out)


def fp_mesh(m):
    """Element containers (coordinates / index tuples / corner tables) and the attributes stored on them.
    Lazily computed connectivity caches are not part of the fingerprint."""
    out = [type(m).__name__]
    for cname in ("vertices", "edges", "faces", "cells"):
        c = getattr(m, cname, None)
        if c is None or not hasattr(c, "_data"):
            out.append((cname, None))
            continue
        out.append((cname, len(c._data), tuple(repr(_plain(x)) for x in c._data), _fp_attrs(c)))
    for cname in ("face_corners", "cell_corners", "cell_faces"):
        c = getattr(m, cname, None)
        if c is None or not hasattr(c, "_elem"):
            out.append((cname, None))
            continue
        out.append((cname, tuple(int(x) for x in c._elem), tuple(int(x) for x in c._adj), _fp_attrs(c)))
    return tuple(out)


def describe_mesh_change(before, after):
    """Names of the containers whose fingerprint differs (for the witness)."""
    names = []
    for b, a in zip(before[1:], after[1:]):
        if b != a:
            n_b = b[1] if isinstance(b[1], int) else (len(b[1]) if b[1] is not None else None)
            n_a = a[1] if isinstance(a[1], int) else (len(a[1]) if a[1] is not None else None)
            names.append("%s: %s -> %s elements" % (b[0], n_b, n_a))
    return names


def _collect(obj, out, depth=0, path="arg"):
    """Lists (path, kind, object) for arrays / boxes / meshes reachable from a call argument."""
    if depth > 3:
        return
    if isinstance(obj, np.ndarray):
        out.append((path, "array", obj))
        base = obj.base
        hops = 0
        while isinstance(base, np.ndarray) and hops < 4:  # a view: the owner must not change either
            out.append((path + ".base", "array", base))
            base = base.base
            hops += 1
    elif is_box(obj):
        out.append((path, "box", obj))
    elif is_mesh(obj):
        out.append((path, "mesh", obj))
    elif isinstance(obj, (list, tuple)):
        if len(obj) <= 64:
            for i, x in enumerate(obj):
                if isinstance(x, (int, float, complex, str)):
                    continue
                _collect(x, out, depth + 1, "%s[%d]" % (path, i))
    elif isinstance(obj, dict):
        for k, x in obj.items():
            _collect(x, out, depth + 1, "%s[%r]" % (path, k))


_FP = {"array": fp_array, "box": fp_box, "mesh": fp_mesh}


class Sentinel:
    def __init__(self, ctx, err_config="warn"):
        self.ctx = ctx
        self.cfg_name = err_config
        self.cfg = dict(ERR_CONFIGS[err_config])
        self.bystanders = []  # (name, kind, role, obj)
        self.transient = []
        self._reported = set()
        self.last_raised = None
        self.n_calls = 0
        self.n_raised = 0
        self.contract_exc = LawBroken
        np.seterr(**HARNESS_ERR)

    # -- registration ---------------------------------------------------------------------------
    def watch(self, name, obj, role, transient=False):
        """role: 'caller_array' | 'sibling_box' | 'mesh' (used in the mechanism string).
        transient: owners of per-call argument views; only the most recent few are kept under watch."""
        kind = "array" if isinstance(obj, np.ndarray) else "box" if is_box(obj) else "mesh" if is_mesh(obj) else None
        if kind is None:
            return
        if transient:
            self.transient.append((name, kind, role, obj))
            if len(self.transient) > 6:
                self.transient.pop(0)
            return
        self.bystanders.append((name, kind, role, obj))

    def unwatch_all(self):
        self.bystanders = []

    def _check(self, cond, monitor, site, mech, what, **wit):
        """One observation; a given (monitor, site, mechanism) is reported once per case so that a defect that fires on
        every call cannot exhaust the per-case violation budget and hide a different one."""
        self.ctx.obs(monitor, site)
        if cond:
            return True
        key = (monitor, site, mech)
        if key not in self._reported:
            self._reported.add(key)
            self.ctx.violation(monitor, site, mech, what, **wit)
        return False

    # -- the bracket ----------------------------------------------------------------------------
    def call(self, site, fn, *args, expect=(), modifies=(), law_monitor="call", **kwargs):
        """-> (True, value) | (False, exception).  `expect`: exception types that are legitimate for this call.
        An exception outside `expect` is reported as an unexpected-exception violation of `law_monitor` (the case goes on).
        FloatingPointError is always legitimate when the configuration under test asks numpy to raise."""
        ctx = self.ctx
        mod_ids = {id(o) for o in modifies}
        targets = []
        for i, a in enumerate(args):
            _collect(a, targets, 0, "arg%d" % i)
        for k, a in kwargs.items():
            _collect(a, targets, 0, "kw_" + str(k))
        seen = set()
        arg_before = []
        for path, kind, obj in targets:
            if id(obj) in seen or id(obj) in mod_ids:
                continue
            seen.add(id(obj))
            arg_before.append((path, kind, obj, _FP[kind](obj)))
        by_before = []
        for name, kind, role, obj in self.bystanders + self.transient:
            if id(obj) in mod_ids or id(obj) in seen:
                continue
            by_before.append((name, kind, role, obj, _FP[kind](obj)))

        np.seterr(**self.cfg)
        err_before = np.geterr()
        raised, val = None, None
        try:
            val = fn(*args, **kwargs)
        except (CaseTimeout, StepBudgetExceeded):
            np.seterr(**HARNESS_ERR)
            raise
        except BaseException as e:  # noqa - compared below, classified afterwards
            if isinstance(e, (KeyboardInterrupt, SystemExit)):
                np.seterr(**HARNESS_ERR)
                raise
            raised = e
        err_after = np.geterr()
        np.seterr(**HARNESS_ERR)
        self.n_calls += 1

        # (c) numpy error configuration
        mon = "errstate_raise" if raised is not None else "errstate_return"
        self._check(err_after == err_before, mon, site, "numpy_errstate_changed",
                    "numpy.geterr() differs after the call (%s)" % ("call raised" if raised is not None else "call returned"),
                    before=err_before, after=err_after, raised=type(raised).__name__ if raised is not None else None)
        # (a) arguments
        for path, kind, obj, before in arg_before:
            after = _FP[kind](obj)
            wit = {}
            if before != after:
                if kind == "mesh":
                    wit["changed"] = describe_mesh_change(before, after)
                elif kind == "array":
                    wit["before"] = np.frombuffer(before[4], dtype=np.dtype(before[2])).tolist()[:12] if before[0] == "nd" else None
                    wit["after"] = np.asarray(obj).ravel().tolist()[:12]
                else:
                    wit["after"] = repr(obj)[:200]
            mech = "argument_%s_changed" % kind
            if kind == "mesh" and wit.get("changed") and all(c.endswith("-> 0 elements") for c in wit["changed"]):
                mech = "argument_mesh_containers_emptied"
            self._check(before == after, "args", site, mech,
                      "an %s passed to the function has different contents after the call" % kind,
                      where=path, raised=type(raised).__name__ if raised is not None else None, **wit)
        # (b) bystanders
        for name, kind, role, obj, before in by_before:
            after = _FP[kind](obj)
            wit = {}
            if before != after:
                if kind == "mesh":
                    wit["changed"] = describe_mesh_change(before, after)
                elif kind == "array":
                    wit["before"] = np.frombuffer(before[4], dtype=np.dtype(before[2])).tolist()[:12] if before[0] == "nd" else None
                    wit["after"] = np.asarray(obj).ravel().tolist()[:12]
                else:
                    wit["after"] = repr(obj)[:200]
            self._check(before == after, "bystanders", site, "%s_changed" % role,
                      "an object that was not passed to the call (%s) changed" % role, bystander=name,
                      raised=type(raised).__name__ if raised is not None else None, **wit)

        if raised is None:
            self.last_raised = None
            return True, val
        self.n_raised += 1
        self.last_raised = raised
        if isinstance(raised, self.contract_exc):
            ctx.violation("contract", raised.fn, raised.mech, raised.what, site=site, **raised.witness)
            return False, raised
        legit = tuple(expect)
        if any(v == "raise" for v in self.cfg.values()):
            legit = legit + (FloatingPointError,)
        if legit and isinstance(raised, legit):
            return False, raised
        where = mouette_site(raised.__traceback__) or "harness"
        tb = "".join(traceback.format_exception(type(raised), raised, raised.__traceback__))
        if where == "harness":
            # the callable handed to the sentinel is harness code: let the worker classify it as a harness error
            raise raised
        ctx.violation(law_monitor, site, "exception:%s@%s" % (type(raised).__name__, where),
                      "unexpected %s in %s: %s" % (type(raised).__name__, site, str(raised)[:200]), traceback=tb[-1800:])
        return False, raised
