"""Known-findings file: read-only at run time.

Each entry: {"id", "property", "status": "open"|"fixed", "mechanism": <regex, full match against the
violation's mechanism string>, "what": <text printed after KNOWN-FINDING:>, ...}.  Entries with status
"fixed" suppress nothing.  Mechanism strings are computed by the monitors from the witness (kind of
disagreement + call site); they never contain seeds, hashes or random values.
"""
import json
import os
import re


def load(path):
    if not os.path.exists(path):
        return []
    with open(path) as f:
        data = json.load(f)
    return data.get("findings", [])


def match(entries, prop, mechanism):
    for ent in entries:
        if ent.get("property") != prop or ent.get("status", "open") != "open":
            continue
        if re.fullmatch(ent["mechanism"], mechanism):
            return ent
    return None
