"""Which properties have a registered check, and how each is described in MANIFEST.json."""
NOTES = ("All checks are runtime monitors over generated workloads (family: runtime monitoring). Verdicts: exit 0 held on "
         "everything explored, exit 1 VIOLATION, exit 2 INCONCLUSIVE (watchdog / monitor observed nothing). "
         "known_findings.json lists genuine defects (open = recorded, fixed = repaired by a 'fix:' commit in /repo).")
NOT_BUILT_REASON = {}
_NOTE = ("Trusted base: the reference models in /verif/mv (independent of mouette), CPython, numpy. Decides only the executions "
         "produced by the generators; 'held' means held on the K cases reported in the evidence file.")
CHECKS = {
 "C20": {"text": "History monitor: random and bounded-exhaustive operation histories are applied to the real UnionFind / PriorityQueue "
                 "and to a tiny sequential model; after every step all observable answers are compared; icontract invariants on the real "
                 "classes re-check the forest/size/index and heap structure after every public call.",
         "design_ref": "DESIGN.md section 6 C20", "note": _NOTE,
         "technique": "runtime monitoring: history vs sequential model + icontract class invariants"},
 "C01": {"text": "Reference-model differential monitor: every public adjacency accessor of SurfaceMesh is called on every element of generated "
                 "certified manifold polygon meshes and compared with a reference built from the face list alone; history monitor: fresh objects are "
                 "driven through the accessor script in permuted orders (each accessor in turn first, with clear()), all answer tables must coincide.",
         "design_ref": "DESIGN.md section 6 C01", "note": _NOTE,
         "technique": "runtime monitoring: reference-model differential oracle + query-order history monitor"},
 "C02": {"text": "Reference-model monitor of construction: expected containers (vertices, edge multiset with attribute payloads, completed faces, "
                 "corner records, class, hard-edge flags) are computed from generated raw inputs and compared after construction through three routes "
                 "and four row container types, with completion switches toggled; idempotence history (re-wrap / re-instantiate / re-prepare) and "
                 "row-type independence of the full connectivity script.",
         "design_ref": "DESIGN.md section 6 C02", "note": _NOTE,
         "technique": "runtime monitoring: reference-model differential oracle + idempotence / container-type metamorphic monitors"},
 "C03": {"text": "Reference-model differential monitor for VolumeMesh connectivity (27 accessors incl. rotational rings around edges) against a "
                 "reference from the cell list, in permuted query orders on fresh objects; boundary monitor: extracted surfaces (boundary_mesh and "
                 "the standalone extractor) must be exactly the border faces, closed, outward, with mutually inverse index maps.",
         "design_ref": "DESIGN.md section 6 C03", "note": _NOTE + " 'Positively oriented' is read as the library's own signed volume det(p0-p3,p1-p3,p2-p3)>0.",
         "technique": "runtime monitoring: reference-model differential oracle + query-order history + boundary-map invariants"},
 "C09": {"text": "Reference-model differential monitor: every path returned by shortest_path / shortest_path_to_vertex_set / shortest_path_to_border on "
                 "generated polylines, surfaces and volumes is checked to start/end correctly, walk along mesh edges and have exactly the minimum weight "
                 "computed by an independent O(n^2) Dijkstra, for unit, Euclidean and custom (dict / Attribute, ties, zero weights) weights and all target forms.",
         "design_ref": "DESIGN.md section 6 C09", "note": _NOTE, "technique": "runtime monitoring: reference-model differential oracle (independent Dijkstra)"},
 "C10": {"text": "Reference-model monitor: vertex / dual-face / cell spanning trees, the minimal spanning tree and the three forests are run on generated "
                 "connected and disconnected meshes with random roots, exclusion sets and avoid_boundary; reach set, edge count, admissibility of tree edges, "
                 "parent/children consistency, traversal orders, BFS depth == reference hop distance, MST weight == reference Kruskal, one tree per component.",
         "design_ref": "DESIGN.md section 6 C10", "note": _NOTE, "technique": "runtime monitoring: reference-model differential oracle + structural invariants of the returned trees"},
 "C13": {"text": "History monitor over editing blocks: generated sequences of 1-3 subdivision operations are run inside one block on zoo surfaces, "
                 "tetrahedral meshes and polylines (connectivity pre-queried or not); the result is judged by the reference analyser (validity, Euler "
                 "characteristic, border loops, components, area/volume), documented count formulas, original vertices bit-exact, every new vertex at a "
                 "centre of the mesh it refines (prefix re-runs), the full connectivity script on the result, and the input object must be unchanged or "
                 "equal to the result with connectivity answers that describe its containers.",
         "design_ref": "DESIGN.md section 6 C13", "note": _NOTE, "technique": "runtime monitoring: operation-history monitor + reference analyser + connectivity differential oracle"},
 "C06": {"text": "History + shadow-state monitor: pools of meshes from every producer (raw containers, from_arrays, loaders, all procedural generators, "
                 "merge, copy, subdivision, boundary extraction) are driven through generated histories of copy / merge / transform / direct-edit steps; after "
                 "every step the operated mesh must equal map(shadow) (each vertex moved exactly once by the requested map) and every other mesh must equal its "
                 "independent float64 shadow bit for bit; copies and merges are checked for equality, disjoint-union structure and absence of shared storage; "
                 "inverse pairs and the documented bounding box after normalising are checked.",
         "design_ref": "DESIGN.md section 6 C06", "note": _NOTE, "technique": "runtime monitoring: operation-history monitor with shadow state and alias detection"},
 "C15": {"text": "Reference-model monitor: border cycles from every border vertex, the list of all cycles and the border polyline (with its index map) "
                 "are compared with border loops derived from the face list on zoo surfaces with chords, ears and several loops; the feature detector is run "
                 "on hinge families folded at angles swept on both sides of the two thresholds (down to 1e-7 rad, crease declared hard or not) and on zoo "
                 "meshes, its edge set compared with a reference dihedral test and its derived data checked for consistency.",
         "design_ref": "DESIGN.md section 6 C15", "note": _NOTE, "technique": "runtime monitoring: reference-model differential oracle with threshold-sweep workloads"},
 "C16": {"text": "Reference-model monitor on SingularityCutter: for generated connected triangulations (genus 0-2, 0-4 border loops, hinge strips with "
                 "feature edges) and singularity sets of every kind, the cut mesh must carry the input faces in order with bit-identical corner positions, "
                 "be a disk by the reference analyser (or an unchanged sphere), have every singular vertex on its border, a vertex map that is onto and "
                 "consistent face by face, no opened edge outside cut_edges, and cut_edges must contain the border and be connected.",
         "design_ref": "DESIGN.md section 6 C16", "note": _NOTE + " Two genuine defects are recorded as known findings (K-C16-1, K-C16-2).",
         "technique": "runtime monitoring: reference analyser + structural oracle on the cut mesh"},
 "C17": {"text": "Invariant monitor on TutteEmbedding output for generated triangulated disks: border vertices on the target (circle / square / custom "
                 "convex polygon) at distinct positions in monotone border order, every interior vertex the weighted average of its neighbours (weights "
                 "re-assembled by the harness), one strict orientation for all triangles where the theorem applies, agreement of per-vertex and per-corner "
                 "storage and of flat_mesh, rejection of surfaces with Euler characteristic != 1.",
         "design_ref": "DESIGN.md section 6 C17", "note": _NOTE, "technique": "runtime monitoring: output invariants with reference-assembled weights + storage-mode metamorphic check"},
 "C18": {"text": "Invariant and metamorphic monitors on real SurfaceFrameField runs (orders 1-6, vertices/faces, closed/bordered, features, smoothing, "
                 "cotan/uniform): unit modulus with a hook on FrameField.normalize recording pre-normalisation magnitudes; constrained elements kept and one "
                 "branch tangent to the single feature edge of a face; quantised singularity indices summing to 4*chi; with smoothing off the field equals the "
                 "dense re-solve (normalised harmonic extension) with the library's own connection Laplacian, which must be Hermitian and reduce to the scalar "
                 "Laplacian for a flat connection; edge-relative branch angles unchanged on a harness-built renumbered and face-rotated copy.",
         "design_ref": "DESIGN.md section 6 C18", "note": _NOTE + " cad_correction (OSQP) is off: OSQP.setup() fails in this sandbox as in the 13 pre-existing test failures. "
                 "Four genuine defects are recorded as known findings (K-C18-1..4).",
         "technique": "runtime monitoring: output invariants + hook on normalize + dense re-solve oracle + renumbering metamorphic monitor"},
 "C04": {"text": "Differential monitor with seven independent reference codecs (obj, medit, geogram_ascii, off, tet, xyz, stl): for generated meshes of every "
                 "kind and hostile coordinates, (1) load(save(m)) must equal the projection of m on the format's vocabulary, (2) the bytes mouette writes are "
                 "parsed by the strict reference reader, (3) files produced by reference writers in several dialects must load as the projection, (4) geogram "
                 "attributes must come back with name, type, arity and values; a native crash of the worker is attributed to the running case.",
         "design_ref": "DESIGN.md section 6 C04", "note": _NOTE + " The reference codecs were written from the format descriptions (geogram's from knowledge of its writer).",
         "technique": "runtime monitoring: round-trip / cross-reader differential oracle with independent codecs, crash isolation per case"},
 "C05": {"text": "History monitor run in lock-step on a sparse and a dense attribute of the same declaration and on a dict model: random and bounded-exhaustive "
                 "histories of create/set/get/in-place update/append/extend/clear/as_array/delete over the five value types; after every step both storages "
                 "and the model must answer the same for every index, accept and reject the same values, keep other entries isolated from in-place updates, "
                 "report out-of-bounds, and stay aligned with the container.",
         "design_ref": "DESIGN.md section 6 C05", "note": _NOTE, "technique": "runtime monitoring: lock-step history vs sequential dict model (random + bounded-exhaustive)"},
 "C11": {"text": "Hook + reference monitor: KDTree._split_points is wrapped to count logical steps and detect state recurrence (non-termination is decided in "
                 "logical steps, never wall-clock); built trees are checked structurally (leaves partition the points, points inside their boxes); k-nearest and "
                 "radius queries are compared with brute force with tie bands, on uniform / clustered / collinear / lattice / duplicate point sets incl. an "
                 "adversarial family for premature pruning.",
         "design_ref": "DESIGN.md section 6 C11", "note": _NOTE, "technique": "runtime monitoring: logical-step hook on a private method + brute-force reference oracle"},
 "C12": {"text": "Contract + sentinel monitor: icontract postconditions and direct algebraic laws on the real AABB / vector / angle primitives (exact rational "
                 "arithmetic for cross products and determinants), and a side-effect sentinel around every call of generated call sequences (including raising "
                 "calls, from several initial numpy error configurations) comparing fingerprints of argument arrays, bystander boxes / meshes and numpy.geterr().",
         "design_ref": "DESIGN.md section 6 C12", "note": _NOTE, "technique": "runtime monitoring: icontract contracts on the real functions + side-effect sentinel over call histories"},
 "C14": {"text": "Reference-analyser monitor: every procedural generator is called over admissible resolutions (unequal pairs in both orders), radii, centres and "
                 "switch combinations; the result is judged by the independent topology analyser (indices, unused vertices, repeated faces, manifoldness, "
                 "orientation, Euler characteristic, border loops), documented element counts, geometry (radius, unit square, corners, ring defect) and switches.",
         "design_ref": "DESIGN.md section 6 C14", "note": _NOTE + " One genuine defect is recorded as a known finding (K-C14-1, unit_triangle with unequal arguments).",
         "technique": "runtime monitoring: reference analyser + documented-count / geometry oracles over the parameter space"},
 "C19": {"text": "Domain + reference monitor: every sampler is run over boxes of dimension 1-5, radii below and above 1, both modes, polylines and zoo surfaces; "
                 "counts, membership in the domain, face normals and a 6-sigma binomial band on per-edge / per-face shares are checked; Bezier curves and patches "
                 "are compared with the Bernstein sum in exact arithmetic, end / corner interpolation, convex hull (LP), rejection of parameters outside [0,1] and "
                 "grid consistency of the polyline / surface exports for unequal sample counts.",
         "design_ref": "DESIGN.md section 6 C19", "note": _NOTE + " The distribution clause is statistical: false-alarm probability < 1e-6 per run (stated in the evidence).",
         "technique": "runtime monitoring: domain-membership oracle + statistical acceptance band + exact Bernstein reference"},
 "C08": {"text": "Reference-model monitor: every discrete operator (cotangent / graph / dual / edge / volume Laplacians, gradient in complex and real form, mass "
                 "matrices with inverse / sqrt options, adjacency and incidence operators, connection Laplacians) is assembled by the library on generated "
                 "surfaces, tetrahedral meshes and polylines and compared with independently assembled dense matrices and with the defining identities "
                 "(symmetry, zero row sums, L == stiffness, Re(G* A G) == L, gradient of affine functions, mass sums, one entry per incidence).",
         "design_ref": "DESIGN.md section 6 C08", "note": _NOTE, "technique": "runtime monitoring: reference-model differential oracle (dense re-assembly) + algebraic identities"},
 "C07": {"text": "Reference-model + metamorphic monitor: every per-element quantity (lengths, midpoints, areas, normals, barycentres, circumcentres, corner "
                 "angles, cotangents, cotangent weights, vertex normals per weighting, angle defects, degree, cell volumes, global sums and means, Euler "
                 "characteristic) is compared with an independent numpy evaluation on generated triangle / planar-polygon surfaces and tetrahedral meshes, "
                 "with the identities (angle sum, Gauss-Bonnet, constant interpolation), rigid-motion / renumbering / scaling laws on harness-built copies, "
                 "and every option combination (persistent, dense, names, weighting, zero_border; output attributes reused).",
         "design_ref": "DESIGN.md section 6 C07", "note": _NOTE, "technique": "runtime monitoring: reference-model differential oracle + metamorphic (rigid / scale / renumbering) monitors"},
}
