"""Which properties have a registered check, and how each is described in MANIFEST.json."""
NOTES = ("All checks are runtime monitors over generated workloads (family: runtime monitoring). Verdicts: exit 0 held on "
         "everything explored, exit 1 VIOLATION, exit 2 INCONCLUSIVE (watchdog / monitor observed nothing). "
         "known_findings.json lists genuine defects (open = recorded, fixed = repaired by a 'fix:' commit in /repo).")
NOT_BUILT_REASON = {}
_NOTE = ("Trusted base: the reference models in /verif/mv (independent of mouette), CPython, numpy. Decides only the executions "
         "produced by the generators; 'held' means held on the K cases reported in the evidence file.")
CHECKS = {
 "C20": {"text": "History monitor: random and bounded-exhaustive operation histories are applied to the real UnionFind / PriorityQueue "
                 "and to a tiny sequential model; after every step all observable answers are compared; icontract invariants on the real "
                 "classes re-check the forest/size/index and heap structure after every public call.",
         "design_ref": "DESIGN.md section 6 C20", "note": _NOTE,
         "technique": "runtime monitoring: history vs sequential model + icontract class invariants"},
}
