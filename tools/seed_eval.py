#!/venv/bin/python
"""Evaluates a seeded change: usage  seed_eval.py <Cxx> <patch.diff> <demo.py> [--checks C01,C02] [--tier quick] [--keep <name>]

1. fresh scratch worktree of /repo HEAD under /tmp; the demo must pass there;
2. patch applied: package imports, baseline suite keeps its 622 stable passes, the demo fails;
3. ./check <Cxx> quick is run against the patched scratch worktree (MOUETTE_REPO) -> exit code and VIOLATION mechanisms;
4. worktree removed.  With --keep the change is stored as /verif/seeded/<name>/ (patch.diff, demo.py, meta.json)."""
import json
import os
import shutil
import subprocess
import sys
import tempfile
import xml.etree.ElementTree as ET

HERE = os.path.dirname(os.path.dirname(os.path.abspath(__file__)))


def sh(cmd, **kw):
    return subprocess.run(cmd, shell=True, capture_output=True, text=True, **kw)


def baseline_pass_set(wt):
    xmlf = os.path.join(tempfile.mkdtemp(), "j.xml")
    env = dict(os.environ, PYTHONPATH=wt)
    env.pop("MOUETTE_VERIF", None)
    sh("cd %s && /venv/bin/python -m pytest -q -p no:cacheprovider --timeout=900 --continue-on-collection-errors -n 8 --junitxml=%s" % (wt, xmlf), env=env)
    passed = set()
    for tc in ET.parse(xmlf).getroot().iter("testcase"):
        if not any(ch.tag in ("failure", "error", "skipped") for ch in tc):
            passed.add("%s::%s" % (tc.get("classname"), tc.get("name")))
    return passed


def main():
    args = sys.argv[1:]
    prop, patch, demo = args[0], os.path.abspath(args[1]), os.path.abspath(args[2])
    checks = [prop]
    tier = "quick"
    keep = None
    if "--checks" in args:
        checks = args[args.index("--checks") + 1].split(",")
    if "--tier" in args:
        tier = args[args.index("--tier") + 1]
    if "--keep" in args:
        keep = args[args.index("--keep") + 1]
    wt = tempfile.mkdtemp(prefix="seedeval_")
    os.rmdir(wt)
    res = {"property": prop, "patch": patch, "demo": demo}
    try:
        r = sh("git -C /repo worktree add -q --detach %s HEAD" % wt)
        assert r.returncode == 0, r.stderr
        env = dict(os.environ, PYTHONPATH=wt)
        r = sh("cd %s && /venv/bin/python %s" % (wt, demo), env=env)
        res["demo_on_clean_exit"] = r.returncode
        r = sh("git -C %s apply %s" % (wt, patch))
        res["patch_applies"] = r.returncode == 0
        if not res["patch_applies"]:
            res["apply_error"] = r.stderr[-400:]
            print(json.dumps(res, indent=1))
            return 1
        r = sh("cd %s && /venv/bin/python -c 'import mouette, sys; print(mouette.__file__)'" % wt, env=env)
        res["imports"] = r.returncode == 0 and wt in r.stdout
        r = sh("cd %s && /venv/bin/python %s" % (wt, demo), env=env)
        res["demo_on_patched_exit"] = r.returncode
        res["demo_tail"] = (r.stdout + r.stderr)[-300:]
        base = json.load(open("/root/.vp/BASELINE.json"))
        passed = baseline_pass_set(wt)
        missing = sorted(set(base["stable_pass"]) - passed)
        res["baseline_missing"] = missing[:10]
        res["check"] = {}
        for c in checks:
            env2 = dict(os.environ, MOUETTE_REPO=wt)
            r = sh("cd %s && ./check %s %s" % (HERE, c, tier), env=env2)
            lines = r.stdout.strip().split("\n")
            mechs = [l.split("mechanism=")[1].split(" ")[0] for l in lines if l.startswith("VIOLATION") and "mechanism=" in l]
            res["check"][c] = {"exit": r.returncode, "mechanisms": mechs[:12], "last": lines[-1][:200] if lines else ""}
        res["valid_seed"] = bool(res["demo_on_clean_exit"] == 0 and res["demo_on_patched_exit"] != 0 and not missing and res["imports"])
        res["caught"] = any(v["exit"] == 1 for v in res["check"].values())
        print(json.dumps(res, indent=1))
        if keep:
            d = os.path.join(HERE, "seeded", keep)
            os.makedirs(d, exist_ok=True)
            shutil.copy(patch, os.path.join(d, "patch.diff"))
            shutil.copy(demo, os.path.join(d, "demo.py"))
            meta = {"property": prop, "valid_seed": res["valid_seed"], "caught_by": {c: v for c, v in res["check"].items()},
                    "what_we_ran": "tools/seed_eval.py: demo on clean worktree (exit %s), demo on patched worktree (exit %s), baseline suite on patched worktree "
                                   "(missing stable passes: %d), ./check %s %s against the patched worktree" % (
                                       res["demo_on_clean_exit"], res["demo_on_patched_exit"], len(missing), ",".join(checks), tier)}
            extra = os.path.join(os.path.dirname(patch), "meta.json")
            if os.path.exists(extra):
                try:
                    meta["author_meta"] = json.load(open(extra))
                except Exception:
                    pass
            json.dump(meta, open(os.path.join(d, "meta.json"), "w"), indent=1)
        return 0
    finally:
        sh("git -C /repo worktree remove --force %s" % wt)
        shutil.rmtree(wt, ignore_errors=True)


if __name__ == "__main__":
    sys.exit(main())
