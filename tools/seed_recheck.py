#!/venv/bin/python
"""Re-runs the quick check of every kept seeded change (/verif/seeded/*/patch.diff) against the *current* machinery and records the outcome
in its meta.json under "final" (the first evaluation stays under "caught_by")."""
import json, os, subprocess, sys, glob, tempfile, shutil
HERE = os.path.dirname(os.path.dirname(os.path.abspath(__file__)))
only = sys.argv[1:]
for d in sorted(glob.glob(os.path.join(HERE, "seeded", "*"))):
    name = os.path.basename(d)
    if only and name not in only:
        continue
    mp = os.path.join(d, "meta.json")
    meta = json.load(open(mp))
    prop = meta["property"]
    wt = tempfile.mkdtemp(prefix="seedre_"); os.rmdir(wt)
    subprocess.run("git -C /repo worktree add -q --detach %s HEAD" % wt, shell=True, check=True)
    try:
        r = subprocess.run("git -C %s apply %s" % (wt, os.path.join(d, "patch.diff")), shell=True, capture_output=True, text=True)
        if r.returncode != 0:
            meta["final"] = {"patch_applies_to_current_head": False, "note": r.stderr[-200:]}
        else:
            env = dict(os.environ, MOUETTE_REPO=wt)
            checks = (os.environ.get("SEED_CHECKS") or ",".join(meta.get("recheck_with", [prop]))).split(",")
            meta["final"] = {"exit": 0, "mechanisms": [], "last": "", "checks": checks}
            for c in checks:
                r = subprocess.run("cd %s && ./check %s quick" % (HERE, c), shell=True, capture_output=True, text=True, env=env)
                lines = r.stdout.strip().split("\n")
                mechs = [c + ":" + l.split("mechanism=")[1].split(" ")[0] if c != prop else l.split("mechanism=")[1].split(" ")[0]
                         for l in lines if l.startswith("VIOLATION") and "mechanism=" in l]
                meta["final"]["mechanisms"] += mechs[:8]
                meta["final"]["last"] = lines[-1][:160]
                if r.returncode == 1:
                    meta["final"]["exit"] = 1
        json.dump(meta, open(mp, "w"), indent=1)
        print(name, meta["final"].get("exit"), meta["final"].get("mechanisms", [])[:2])
    finally:
        subprocess.run("git -C /repo worktree remove --force %s" % wt, shell=True)
        shutil.rmtree(wt, ignore_errors=True)
