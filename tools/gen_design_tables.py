#!/venv/bin/python
"""Rewrites the generated tables of DESIGN.md (between BEGIN/END markers) from known_findings.json and seeded/*/meta.json."""
import json, os, glob, re
HERE = os.path.dirname(os.path.dirname(os.path.abspath(__file__)))
kf = json.load(open(os.path.join(HERE, "known_findings.json")))["findings"]
rows = ["| id | prop | status | commit | what failed | mechanism (regex matched on violation events) |", "|---|---|---|---|---|---|"]
for e in kf:
    what = e["what"]
    what = re.sub(r"^fixed: property=\S+ \S+ ", "", what)
    rows.append("| %s | %s | %s | %s | %s | `%s` |" % (e["id"], e["property"], e["status"], e.get("commit", "-"), what.replace("|", "/"), e["mechanism"].replace("|", "\\|")))
findings = "\n".join(rows)
rows = ["| seeded change | property | what it needs to manifest | valid seed | caught by (quick tier) | mechanisms reported |", "|---|---|---|---|---|---|"]
for d in sorted(glob.glob(os.path.join(HERE, "seeded", "*"))):
    mp = os.path.join(d, "meta.json")
    if not os.path.exists(mp):
        continue
    m = json.load(open(mp))
    needs = m.get("needs_to_manifest", "")
    caught = [c for c, v in m.get("caught_by", {}).items() if v.get("exit") == 1]
    mechs = sorted({x for v in m.get("caught_by", {}).values() for x in v.get("mechanisms", [])})[:3]
    rows.append("| %s | %s | %s | %s | %s | %s |" % (os.path.basename(d), m.get("property"), needs.replace("|", "/")[:160], m.get("valid_seed"),
                                                   ", ".join(caught) or ("**missed**" if m.get("valid_seed") else "-"), "; ".join("`%s`" % x for x in mechs)))
seeded = "\n".join(rows)
p = os.path.join(HERE, "DESIGN.md")
s = open(p).read()
for tag, body in (("FINDINGS", findings), ("SEEDED", seeded)):
    a, b = "<!-- BEGIN %s -->" % tag, "<!-- END %s -->" % tag
    if a in s and b in s:
        s = s[:s.index(a) + len(a)] + "\n" + body + "\n" + s[s.index(b):]
open(p, "w").write(s)
print("tables regenerated")
