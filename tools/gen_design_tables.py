#!/venv/bin/python
"""Rewrites the generated tables of DESIGN.md (between BEGIN/END markers) from known_findings.json and seeded/*/meta.json."""
import json, os, glob, re
HERE = os.path.dirname(os.path.dirname(os.path.abspath(__file__)))
kf = json.load(open(os.path.join(HERE, "known_findings.json")))["findings"]
rows = ["| id | prop | status | commit | what failed | mechanism (regex matched on violation events) |", "|---|---|---|---|---|---|"]
for e in kf:
    what = e["what"]
    what = re.sub(r"^fixed: property=\S+ \S+ ", "", what)
    rows.append("| %s | %s | %s | %s | %s | `%s` |" % (e["id"], e["property"], e["status"], e.get("commit", "-"), what.replace("|", "/"), e["mechanism"].replace("|", "\\|")))
findings = "\n".join(rows)
rows = ["| seeded change | property | file / what it breaks (author's words, shortened) | what it needs to manifest | first evaluation | now |", "|---|---|---|---|---|---|"]
for d in sorted(glob.glob(os.path.join(HERE, "seeded", "*"))):
    mp = os.path.join(d, "meta.json")
    if not os.path.exists(mp):
        continue
    m = json.load(open(mp))
    name = os.path.basename(d)
    idx = int(name[-1]) - 1 if name[-1].isdigit() else 0
    am = (m.get("author_meta") or {}).get("changes") or []
    what = needs = ""
    if idx < len(am):
        what = str(am[idx].get("what_it_breaks", ""))[:230]
        needs = str(am[idx].get("needs_to_manifest", ""))[:230]
    first = m.get("caught_by", {})
    fc = [c for c, v in first.items() if v.get("exit") == 1]
    fm = sorted({x for v in first.values() for x in v.get("mechanisms", [])})[:2]
    first_txt = ("caught: " + "; ".join("`%s`" % x for x in fm)) if fc else "**missed**"
    fin = m.get("final")
    if fin is None:
        now = first_txt if fc else "**missed**"
    elif fin.get("exit") == 1:
        now = "caught: " + "; ".join("`%s`" % x for x in fin.get("mechanisms", [])[:2])
    else:
        now = "**missed** (%s)" % fin.get("last", fin.get("note", ""))[:60]
    if m.get("neutralised"):
        now = "no longer a break: " + m["neutralised"][:160]
    if m.get("rebased"):
        now += " (patch rebased onto a later fix)"
    clean = lambda t: t.replace("|", "/").replace("\n", " ")
    rows.append("| %s | %s | %s | %s | %s | %s |" % (name, m.get("property"), clean(what), clean(needs), first_txt, now))
seeded = "\n".join(rows)
p = os.path.join(HERE, "DESIGN.md")
s = open(p).read()
for tag, body in (("FINDINGS", findings), ("SEEDED", seeded)):
    a, b = "<!-- BEGIN %s -->" % tag, "<!-- END %s -->" % tag
    if a in s and b in s:
        s = s[:s.index(a) + len(a)] + "\n" + body + "\n" + s[s.index(b):]
open(p, "w").write(s)
print("tables regenerated")
