#!/bin/sh
# usage: tools/mut.sh Cxx file-relative-to-mouette 'python-regex' 'replacement' [count]
# applies one textual mutation to a scratch copy of mouette and runs the quick check against it
set -e
P=$1; F=$2; PAT=$3; REP=$4
D=$(mktemp -d /tmp/mut_XXXXXX)
cp -r /repo/mouette $D/mouette
/venv/bin/python - "$D/mouette/$F" "$PAT" "$REP" <<'PY'
import re,sys
p,pat,rep=sys.argv[1:4]
s=open(p).read()
s2,n=re.subn(pat,rep,s,count=1)
if n!=1: print("MUTATION DID NOT APPLY"); sys.exit(5)
open(p,'w').write(s2)
PY
cd /verif
MOUETTE_REPO=$D ./check $P quick 2>&1 | tail -${5:-2} | cut -c1-330
rm -rf $D
