#!/venv/bin/python
"""usage: record_fixed.py <finding id> <property> <substring of the fix commit subject> <mechanism regex> <what>"""
import json, subprocess, sys
fid, prop, sub, mech, what = sys.argv[1:6]
log = subprocess.run("git -C /repo log --format='%h %s'", shell=True, capture_output=True, text=True).stdout.strip().split("\n")
commit = [l.split()[0] for l in log if sub in l]
assert len(commit) == 1, (sub, commit)
p = "/verif/known_findings.json"
kf = json.load(open(p))
assert all(e["id"] != fid for e in kf["findings"]), fid
kf["findings"].append({"id": fid, "property": prop, "status": "fixed", "commit": commit[0], "mechanism": mech,
                       "what": "fixed: property=%s %s %s" % (prop, commit[0], what)})
json.dump(kf, open(p, "w"), indent=1)
print("recorded", fid, commit[0])
