#!/bin/sh
# usage: tools/seed_check.sh <Cxx> <patch> [tier]  -- applies the patch to a scratch worktree of /repo HEAD and runs the check against it
P=$1; PATCH=$(readlink -f $2); T=${3:-quick}
D=$(mktemp -d /tmp/seedchk_XXXXXX); rmdir $D
git -C /repo worktree add -q --detach $D HEAD || exit 9
git -C $D apply $PATCH || { echo "PATCH DOES NOT APPLY"; git -C /repo worktree remove --force $D; exit 8; }
cd /verif && MOUETTE_REPO=$D ./check $P $T 2>&1 | grep -v "^KNOWN" | tail -4 | cut -c1-260
git -C /repo worktree remove --force $D
