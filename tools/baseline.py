#!/venv/bin/python
"""Runs the repository's pinned test suite (guard off) and compares with /root/.vp/BASELINE.json stable_pass."""
import json, os, subprocess, sys, tempfile, xml.etree.ElementTree as ET
base = json.load(open("/root/.vp/BASELINE.json"))
tmp = tempfile.mkdtemp()
xmlf = os.path.join(tmp, "j.xml")
env = dict(os.environ); env.pop("MOUETTE_VERIF", None)
cmd = "cd /repo && /venv/bin/python -m pytest -q -p no:cacheprovider --timeout=900 --continue-on-collection-errors -x -n 8 --junitxml=%s" % xmlf
cmd = cmd.replace(" -x", "")
r = subprocess.run(cmd, shell=True, env=env, capture_output=True, text=True)
passed = set()
for tc in ET.parse(xmlf).getroot().iter("testcase"):
    if not any(ch.tag in ("failure", "error", "skipped") for ch in tc):
        passed.add("%s::%s" % (tc.get("classname"), tc.get("name")))
want = set(base["stable_pass"])
missing = sorted(want - passed)
print("passed=%d stable_pass=%d missing=%d" % (len(passed), len(want), len(missing)))
for m in missing[:30]: print("  MISSING", m)
print(r.stdout[-300:])
sys.exit(1 if missing else 0)
