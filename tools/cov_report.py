#!/venv/bin/python
"""usage: tools/cov_report.py <Cxx> [substring of file]  -- after ./check <Cxx> ..., print the executable lines of the property's anchor files that
no monitored execution went through (from covdata/<Cxx>.json, written by the runner).  A guide for widening workloads."""
import json, os, sys
sys.path.insert(0, "/verif")
from mv import linecov
prop = sys.argv[1].upper()
sub = sys.argv[2] if len(sys.argv) > 2 else ""
seen = {k: set(v) for k, v in json.load(open("/verif/covdata/%s.json" % prop)).items()}
files = []
for line in open("/verif/properties.jsonl"):
    d = json.loads(line)
    if d["id"] == prop:
        files = d["anchors"]["files"]
repo = os.environ.get("MOUETTE_REPO", "/repo")
for f in files:
    if sub not in f:
        continue
    rel = f[len("mouette/"):]
    try:
        exe, src = linecov.executable_lines(os.path.join(repo, f))
    except OSError:
        print("##", f, "missing"); continue
    lines = src.split("\n")
    miss = sorted(exe - seen.get(rel, set()))
    print("## %s: %d/%d executable lines executed" % (f, len(exe) - len(miss), len(exe)))
    fns = linecov.functions(src)
    def owner(l):
        best = None
        for n, a, b in fns:
            if a - 1 <= l <= b and (best is None or a > best[1]):
                best = (n, a)
        return best[0] if best else "<module>"
    last = None
    for l in miss:
        o = owner(l)
        if o != last:
            print("  -- in %s" % o); last = o
        print("  %5d  %s" % (l, lines[l - 1].rstrip()[:150]))
