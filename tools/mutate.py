#!/venv/bin/python
"""Mechanical single-point changes of a property's anchor files, each judged by that property's quick check.

usage: tools/mutate.py <Cxx> [--n 40] [--seed 0] [--lanes 4] [--jobs 4] [--tests] [--files substr]

For every sampled change (one AST node of a function that the monitored executions actually enter, see covdata/<Cxx>.json):
  1. a private copy of /repo's mouette package is made under a scratch directory (outside /repo and /verif, removed afterwards),
     the one file is rewritten with the change (ast.unparse), and byte-compiled (changes that do not compile are dropped);
  2. ./check <Cxx> quick runs against that copy (MOUETTE_REPO): exit 1 = caught, 0 = survived, 2 = inconclusive;
  3. with --tests, mouette's own test suite is run on the copies that survived, to tell "also passes the existing tests"
     (a realistic change in the brief's sense) from "would have been caught by the tests anyway".
Results go to mutation/<Cxx>.json (kept in git: they are the record of which mechanical changes each check catches).
Survivors are the reading list: equivalent changes, changes outside the statement, or gaps to close.
"""
import ast, copy, json, os, random, shutil, subprocess, sys, tempfile, time
from concurrent.futures import ThreadPoolExecutor

HERE = os.path.dirname(os.path.dirname(os.path.abspath(__file__)))
sys.path.insert(0, HERE)


def arg(name, default=None, flag=False):
    if name in sys.argv:
        i = sys.argv.index(name)
        if flag:
            sys.argv.pop(i)
            return True
        v = sys.argv[i + 1]
        del sys.argv[i:i + 2]
        return v
    return False if flag else default


CMP = {ast.Lt: ast.LtE, ast.LtE: ast.Lt, ast.Gt: ast.GtE, ast.GtE: ast.Gt, ast.Eq: ast.NotEq, ast.NotEq: ast.Eq, ast.Is: ast.IsNot, ast.IsNot: ast.Is,
       ast.In: ast.NotIn, ast.NotIn: ast.In}
BIN = {ast.Add: ast.Sub, ast.Sub: ast.Add, ast.Mult: ast.Div, ast.Div: ast.Mult, ast.FloorDiv: ast.Div, ast.Mod: ast.FloorDiv}


def sites(tree, allowed_lines):
    """Yields (kind, node path index, description) for every mutable node on an executed line inside a function."""
    out = []
    for fn in ast.walk(tree):
        if not isinstance(fn, (ast.FunctionDef, ast.AsyncFunctionDef)):
            continue
        for node in ast.walk(fn):
            ln = getattr(node, "lineno", None)
            if ln is None or (allowed_lines is not None and ln not in allowed_lines):
                continue
            if isinstance(node, ast.Compare) and len(node.ops) == 1 and type(node.ops[0]) in CMP:
                out.append(("cmp", node, fn.name))
            elif isinstance(node, ast.BinOp) and type(node.op) in BIN:
                if isinstance(node.left, ast.Constant) and isinstance(node.left.value, str):
                    continue
                out.append(("bin", node, fn.name))
            elif isinstance(node, ast.BoolOp):
                out.append(("bool", node, fn.name))
            elif isinstance(node, ast.UnaryOp) and isinstance(node.op, ast.Not):
                out.append(("not", node, fn.name))
            elif isinstance(node, ast.Constant) and isinstance(node.value, (int, float)) and not isinstance(node.value, bool):
                out.append(("const", node, fn.name))
            elif isinstance(node, (ast.Assign, ast.AugAssign, ast.Expr)) and not (isinstance(node, ast.Expr) and isinstance(node.value, ast.Constant)):
                out.append(("del", node, fn.name))
            elif isinstance(node, (ast.Break, ast.Continue)):
                out.append(("loopctl", node, fn.name))
            elif isinstance(node, ast.Subscript) and isinstance(node.slice, ast.Constant) and isinstance(node.slice.value, int):
                out.append(("index", node, fn.name))
    # de-duplicate (nested functions are walked twice)
    seen, uniq = set(), []
    for k, n, f in out:
        key = (k, id(n))
        if key not in seen:
            seen.add(key)
            uniq.append((k, n, f))
    return uniq


def apply(kind, node, rng):
    """Mutates `node` in place; returns a short description or None if nothing sensible can be done."""
    before = ast.unparse(node)[:90]
    if kind == "cmp":
        node.ops = [CMP[type(node.ops[0])]()]
    elif kind == "bin":
        node.op = BIN[type(node.op)]()
    elif kind == "bool":
        node.op = ast.Or() if isinstance(node.op, ast.And) else ast.And()
    elif kind == "not":
        # `not x` -> `x`
        node.op = ast.UAdd() if False else node.op
        repl = node.operand
        node.__class__ = repl.__class__
        node.__dict__.clear()
        node.__dict__.update(repl.__dict__)
    elif kind == "const":
        v = node.value
        if isinstance(v, int):
            node.value = v + rng.choice([1, -1])
        else:
            node.value = v * rng.choice([10.0, 0.1, 1e4]) if v != 0 else 1e-3
    elif kind == "del":
        repl = ast.Pass()
        ast.copy_location(repl, node)
        node.__class__ = ast.Pass
        for k in list(node.__dict__):
            if k not in ("lineno", "col_offset", "end_lineno", "end_col_offset"):
                del node.__dict__[k]
    elif kind == "loopctl":
        node.__class__ = ast.Continue if isinstance(node, ast.Break) else ast.Break
    elif kind == "index":
        node.slice.value = node.slice.value + rng.choice([1, -1])
    after = ast.unparse(node)[:90]
    if after == before:
        return None
    return "%s  ->  %s" % (before, after)


def main():
    n = int(arg("--n", 40))
    seed = int(arg("--seed", 0))
    lanes = int(arg("--lanes", 4))
    jobs = int(arg("--jobs", 4))
    tests = arg("--tests", flag=True)
    fsub = arg("--files", "")
    prop = sys.argv[1].upper()
    rng = random.Random(seed * 7919 + int(prop[1:]))
    files = []
    for line in open(os.path.join(HERE, "properties.jsonl")):
        d = json.loads(line)
        if d["id"] == prop:
            files = [f for f in d["anchors"]["files"] if fsub in f]
    try:
        cov = {k: set(v) for k, v in json.load(open(os.path.join(HERE, "covdata", prop + ".json"))).items()}
    except OSError:
        cov = None
    cands = []
    for f in files:
        src = open(os.path.join("/repo", f)).read()
        tree = ast.parse(src)
        allowed = cov.get(f[len("mouette/"):], set()) if cov is not None else None
        for idx, (kind, node, fn) in enumerate(sites(tree, allowed)):
            cands.append((f, idx, kind, fn, node.lineno))
    rng.shuffle(cands)
    # spread over kinds and functions: at most 3 per (file, function)
    picked, per_fn = [], {}
    for c in cands:
        key = (c[0], c[3])
        if per_fn.get(key, 0) >= 3:
            continue
        per_fn[key] = per_fn.get(key, 0) + 1
        picked.append(c)
        if len(picked) >= n:
            break
    scratch = tempfile.mkdtemp(prefix="mvmut_%s_" % prop)
    results = []

    def one(k, cand):
        f, idx, kind, fn, lineno = cand
        src = open(os.path.join("/repo", f)).read()
        tree = ast.parse(src)
        allowed = cov.get(f[len("mouette/"):], set()) if cov is not None else None
        st = sites(tree, allowed)
        kind2, node, fn2 = st[idx]
        desc = apply(kind2, node, random.Random(seed * 31 + k))
        rec = {"file": f, "function": fn, "line": lineno, "operator": kind, "change": desc}
        if desc is None:
            rec["outcome"] = "no_change"
            return rec
        root = os.path.join(scratch, "m%d" % k)
        try:
            os.makedirs(root)
            shutil.copytree("/repo/mouette", os.path.join(root, "mouette"), ignore=shutil.ignore_patterns("__pycache__"))
            tgt = os.path.join(root, f)
            new_src = ast.unparse(tree)
            try:
                compile(new_src, tgt, "exec")
            except SyntaxError:
                rec["outcome"] = "does_not_compile"
                return rec
            open(tgt, "w").write(new_src)
            env = dict(os.environ, MOUETTE_REPO=root, VERIF_LINECOV="0")
            t0 = time.time()
            r = subprocess.run("cd %s && ./check %s quick --jobs %d" % (HERE, prop, jobs), shell=True, capture_output=True, text=True, env=env, timeout=1800)
            lines = [l for l in r.stdout.strip().split("\n") if l]
            mech = sorted({l.split("mechanism=")[1].split(" ")[0] for l in lines if l.startswith("VIOLATION") and "mechanism=" in l})
            rec["check_exit"] = r.returncode
            rec["outcome"] = {0: "survived", 1: "caught", 2: "inconclusive"}.get(r.returncode, "error")
            rec["mechanisms"] = mech[:4]
            rec["wall_s"] = round(time.time() - t0, 1)
            if rec["outcome"] == "inconclusive":
                rec["reason"] = [l for l in lines if l.startswith("INCONCLUSIVE")][:1]
            if tests and rec["outcome"] == "survived":
                shutil.copytree("/repo/tests", os.path.join(root, "tests"), ignore=shutil.ignore_patterns("__pycache__"))
                for extra in ("pyproject.toml", "setup.py", "setup.cfg", "pytest.ini", "conftest.py"):
                    if os.path.exists(os.path.join("/repo", extra)):
                        shutil.copy(os.path.join("/repo", extra), root)
                xmlf = os.path.join(root, "j.xml")
                env2 = dict(os.environ, PYTHONPATH=root)
                env2.pop("MOUETTE_VERIF", None)
                subprocess.run("cd %s && /venv/bin/python -m pytest -q -p no:cacheprovider --timeout=900 --continue-on-collection-errors -n 4 --junitxml=%s tests" % (root, xmlf),
                               shell=True, capture_output=True, text=True, env=env2, timeout=3600)
                import xml.etree.ElementTree as ET
                passed = set()
                try:
                    for tc in ET.parse(xmlf).getroot().iter("testcase"):
                        if not any(ch.tag in ("failure", "error", "skipped") for ch in tc):
                            passed.add("%s::%s" % (tc.get("classname"), tc.get("name")))
                    want = set(json.load(open("/root/.vp/BASELINE.json"))["stable_pass"])
                    rec["tests_missing"] = len(want - passed)
                    rec["passes_existing_tests"] = not (want - passed)
                except Exception as e:
                    rec["tests_error"] = str(e)[:100]
        except subprocess.TimeoutExpired:
            rec["outcome"] = "timeout"
        finally:
            shutil.rmtree(root, ignore_errors=True)
        print("%-12s %s:%d %s | %s | %s" % (rec["outcome"], f.split("/")[-1], lineno, fn, desc, ",".join(rec.get("mechanisms", []))[:100]), flush=True)
        return rec

    try:
        with ThreadPoolExecutor(lanes) as ex:
            results = list(ex.map(lambda kc: one(*kc), enumerate(picked)))
    finally:
        shutil.rmtree(scratch, ignore_errors=True)
    summary = {}
    for r in results:
        summary[r["outcome"]] = summary.get(r["outcome"], 0) + 1
    os.makedirs(os.path.join(HERE, "mutation"), exist_ok=True)
    out = {"property": prop, "seed": seed, "candidates": len(cands), "sampled": len(picked), "summary": summary,
           "repo_head": subprocess.run("git -C /repo rev-parse --short HEAD", shell=True, capture_output=True, text=True).stdout.strip(),
           "mutants": results}
    path = os.path.join(HERE, "mutation", "%s_seed%d.json" % (prop, seed))
    json.dump(out, open(path, "w"), indent=1)
    print(prop, summary, "->", path)


if __name__ == "__main__":
    main()
