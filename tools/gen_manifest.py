#!/venv/bin/python
"""Regenerates /verif/MANIFEST.json from mv/registry.py (which properties have a registered check)."""
import json, os, sys
HERE = os.path.dirname(os.path.dirname(os.path.abspath(__file__)))
sys.path.insert(0, HERE)
from mv.registry import CHECKS, NOT_BUILT_REASON, NOTES
props = [json.loads(l) for l in open(os.path.join(HERE, "properties.jsonl"))]
checks, na = [], []
for p in props:
    pid = p["id"]
    if pid in CHECKS:
        c = CHECKS[pid]
        checks.append({
            "property_id": pid,
            "quick_cmd": "./check %s quick" % pid,
            "thorough_cmd": "./check %s thorough" % pid,
            "evidence_file": "/verif/evidence/%s.json" % pid,
            "replay_cmd_template": "./check %s --replay {path}" % pid,
            "engine": "mv",
            "level_claimed": {"category": "exploration", "text": c["text"], "design_ref": c["design_ref"]},
            "level_note": c["note"],
            "technique": c["technique"],
        })
    else:
        na.append({"property_id": pid, "reason": NOT_BUILT_REASON.get(pid, "monitor not built yet in this round; see DESIGN.md section 6 for the intended oracle")})
m = {
    "version": 1,
    "setup_cmd": "./setup.sh",
    "hooks": {
        "guard": "MOUETTE_VERIF",
        "enable": "no instrumentation is committed to mouette: ./check sets MOUETTE_VERIF=1 and PYTHONPATH=/repo and wraps private methods / attaches icontract invariants from the harness at import time",
        "baseline_off_cmd": "cd /repo && /venv/bin/python -m pytest -ra -q -p no:cacheprovider --timeout=900 --continue-on-collection-errors",
        "source_commits": [],
        "add_only": True,
    },
    "engines": [{"name": "mv", "path": "/verif/mv", "serves_properties": sorted(CHECKS),
                 "kind_free_text": "runtime monitoring: generated hostile workloads executed against the real library in isolated worker processes, watched by reference-model / history / invariant / side-effect monitors (icontract invariants on the real classes where structural); sys.monitoring LINE events record which lines of the anchor files the monitored executions went through (evidence: anchor_line_coverage)"}],
    "checks": checks,
    "notes": NOTES,
    "not_applicable": na,
}
json.dump(m, open(os.path.join(HERE, "MANIFEST.json"), "w"), indent=1)
import jsonschema
sys.path.insert(0, os.path.join(HERE, ".deps"))
jsonschema.validate(m, json.load(open("/root/.vp/MANIFEST.schema.json")))
print("MANIFEST ok: %d checks, %d not_applicable" % (len(checks), len(na)))
